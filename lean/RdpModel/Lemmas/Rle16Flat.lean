import RdpModel.Lemmas.Rle16Norm
/-
  The decoder's output buffer read as a raster in STREAM order.

  `rle_16_decompress` writes scanlines from the bottom of the buffer upwards
  (`line = height * width` with `height` counting down), the reference decoder appends to a
  flat raster.  `flat w h0 s` lists the pixels written so far in the order in which they were
  written; one macro step appends exactly one pixel to it (`flat_put`), and the pixel above
  the cursor is the one `w` positions back (`above_flat`).
-/
namespace Rdp.Rle16
open Rdp

/-- the geometric invariant, with the two facts about the first scanline that `Inv` leaves out -/
structure Inv2 (w h0 : Nat) (s : St) : Prop where
  inv : Inv w h0 s
  start : s.line = none → s.height = h0 ∧ s.x = w
  first : s.prev = none → s.line ≠ none → s.height + 1 = h0

/-- number of pixels written so far -/
def emitted (w h0 : Nat) (s : St) : Nat := (h0 - s.height) * w + s.x - w

/-- buffer index of the `i`-th pixel of the stream -/
def cell (w h0 i : Nat) : Nat := (h0 - 1 - i / w) * w + i % w

/-- the pixels written so far, in stream order -/
def flat (w h0 : Nat) (s : St) : List UInt16 :=
  (List.range (emitted w h0 s)).map fun i => s.out.getD (cell w h0 i) 0

theorem flat_length (w h0 : Nat) (s : St) : (flat w h0 s).length = emitted w h0 s := by simp [flat]

/-- a state ready to write a pixel: the cursor is inside a line -/
structure Ready (w h0 : Nat) (s : St) : Prop where
  inv2 : Inv2 w h0 s
  xlt : s.x < w

theorem Ready.line {w h0 : Nat} {s : St} (r : Ready w h0 s) : s.line = some (s.height * w) ∧ s.height < h0 := by
  have hne := r.inv2.inv.xlt r.xlt
  cases hl : s.line with
  | none => exact absurd hl hne
  | some l => obtain ⟨rfl, hh⟩ := r.inv2.inv.lineSome l hl; exact ⟨rfl, hh⟩

theorem Ready.emitted_eq {w h0 : Nat} {s : St} (r : Ready w h0 s) :
    emitted w h0 s = (h0 - s.height - 1) * w + s.x := by
  have hh := r.line.2
  unfold Rle16.emitted
  obtain ⟨k, hk⟩ : ∃ k, h0 - s.height = k + 1 := ⟨h0 - s.height - 1, by omega⟩
  rw [hk, Nat.add_mul]
  simp only [Nat.add_sub_cancel, Nat.one_mul]
  omega

theorem Ready.cell_eq {w h0 : Nat} {s : St} (r : Ready w h0 s) :
    cell w h0 (Rle16.emitted w h0 s) = s.height * w + s.x := by
  have hh := r.line.2
  have hx := r.xlt
  rw [r.emitted_eq]
  unfold Rle16.cell
  have hw : 0 < w := by omega
  rw [Nat.mul_comm (h0 - s.height - 1) w, Nat.mul_add_div hw, Nat.mul_add_mod, Nat.div_eq_of_lt hx, Nat.mod_eq_of_lt hx]
  congr 2; omega

/-- different stream positions inside the bitmap live in different buffer cells -/
theorem cell_inj {w h0 i j : Nat} (hi : i < w * h0) (hj : j < w * h0) (h : cell w h0 i = cell w h0 j) : i = j := by
  unfold cell at h
  have hw : 0 < w := by
    rcases Nat.eq_zero_or_pos w with hz | hp
    · subst hz; omega
    · exact hp
  have hi' : i / w < h0 := (Nat.div_lt_iff_lt_mul hw).mpr (by rw [Nat.mul_comm]; exact hi)
  have hj' : j / w < h0 := (Nat.div_lt_iff_lt_mul hw).mpr (by rw [Nat.mul_comm]; exact hj)
  have mi := Nat.mod_lt i hw
  have mj := Nat.mod_lt j hw
  -- equal rows and columns
  have hrow : h0 - 1 - i / w = h0 - 1 - j / w := by
    have e1 : ((h0 - 1 - i / w) * w + i % w) / w = h0 - 1 - i / w := by
      rw [Nat.mul_comm, Nat.mul_add_div hw, Nat.div_eq_of_lt mi]; rfl
    have e2 : ((h0 - 1 - j / w) * w + j % w) / w = h0 - 1 - j / w := by
      rw [Nat.mul_comm, Nat.mul_add_div hw, Nat.div_eq_of_lt mj]; rfl
    rw [← e1, ← e2, h]
  have hcol : i % w = j % w := by
    rw [hrow] at h; omega
  have hdiv : i / w = j / w := by omega
  rw [← Nat.div_add_mod i w, ← Nat.div_add_mod j w, hdiv, hcol]

/-- **One write appends one pixel.**  Writing `v` at the cursor of a ready state and
    advancing the cursor extends the stream-order raster by `v`. -/
theorem flat_put {w h0 : Nat} {s s' : St} (r : Ready w h0 s) (v : UInt16)
    (hout : s'.out = s.out.setIfInBounds (s.height * w + s.x) v) (hx : s'.x = s.x + 1) (hh : s'.height = s.height) :
    flat w h0 s' = flat w h0 s ++ [v] := by
  have hhl := r.line.2
  have hxl := r.xlt
  have hsz := r.inv2.inv.size
  have he : emitted w h0 s' = emitted w h0 s + 1 := by
    unfold emitted; rw [hx, hh]
    have : w ≤ (h0 - s.height) * w := by
      have : 1 ≤ h0 - s.height := by omega
      calc w = 1 * w := (Nat.one_mul w).symm
        _ ≤ (h0 - s.height) * w := Nat.mul_le_mul_right w this
    omega
  have hin : s.height * w + s.x < s.out.size := Nat.lt_of_lt_of_le (mul_bound hhl hxl) hsz
  have hlt : emitted w h0 s < w * h0 := by
    rw [r.emitted_eq]
    have : (h0 - s.height - 1 + 1) * w ≤ h0 * w := Nat.mul_le_mul_right w (by omega)
    rw [Nat.add_mul] at this
    rw [Nat.mul_comm w h0]; omega
  unfold flat
  rw [he, List.range_succ, List.map_append]
  congr 1
  · apply List.map_congr_left
    intro i hi
    rw [List.mem_range] at hi
    rw [hout]
    have hne : s.height * w + s.x ≠ cell w h0 i := by
      intro heq
      rw [← r.cell_eq] at heq
      have := cell_inj hlt (Nat.lt_trans hi hlt) heq
      omega
    simp [Array.getD_eq_getD_getElem?, Array.getElem?_setIfInBounds_ne hne]
  · simp only [List.map_cons, List.map_nil]
    rw [r.cell_eq, hout]
    simp [Array.getD_eq_getD_getElem?, Array.getElem?_setIfInBounds_self_of_lt hin]

/-- `put` on a ready state -/
theorem put_ready {w h0 : Nat} {s : St} (r : Ready w h0 s) (v : UInt16) :
    put s v = .ok { s with out := s.out.setIfInBounds (s.height * w + s.x) v } := by
  have hhl := r.line
  have hin : s.height * w + s.x < s.out.size := Nat.lt_of_lt_of_le (mul_bound hhl.2 r.xlt) r.inv2.inv.size
  unfold put
  rw [hhl.1]
  simp only [hin, if_true]

/-- the pixel above the cursor is the one `w` places back in the stream; there is none on
    the first scanline -/
theorem above_flat {w h0 : Nat} {s : St} (r : Ready w h0 s) :
    (s.prev = none → emitted w h0 s < w) ∧
    (∀ e, s.prev = some e → w ≤ emitted w h0 s ∧
      above s e = .ok ((flat w h0 s).getD (emitted w h0 s - w) 0)) := by
  have hhl := r.line
  have hxl := r.xlt
  have hem := r.emitted_eq
  constructor
  · intro hp
    have := r.inv2.first hp (by rw [hhl.1]; simp)
    rw [hem]
    have : h0 - s.height - 1 = 0 := by omega
    rw [this]; omega
  · intro e he
    obtain ⟨rfl, hh1⟩ := r.inv2.inv.prevSome e he
    have hge : w ≤ emitted w h0 s := by
      rw [hem]
      have : 1 ≤ h0 - s.height - 1 := by omega
      calc w = 1 * w := (Nat.one_mul w).symm
        _ ≤ (h0 - s.height - 1) * w := Nat.mul_le_mul_right w this
        _ ≤ _ := Nat.le_add_right _ _
    refine ⟨hge, ?_⟩
    have hin : (s.height + 1) * w + s.x < s.out.size := Nat.lt_of_lt_of_le (mul_bound hh1 hxl) r.inv2.inv.size
    unfold above
    simp only [hin, dite_true]
    congr 1
    have hidx : emitted w h0 s - w = (h0 - s.height - 2) * w + s.x := by
      rw [hem]
      have : h0 - s.height - 1 = (h0 - s.height - 2) + 1 := by omega
      rw [this, Nat.add_mul]; omega
    have hlt : emitted w h0 s - w < emitted w h0 s := by
      have hw : 0 < w := by omega
      omega
    unfold flat
    rw [List.getD_eq_getElem?_getD, List.getElem?_map, List.getElem?_range hlt]
    simp only [Option.map_some, Option.getD_some]
    have hw : 0 < w := by omega
    have hc : cell w h0 (emitted w h0 s - w) = (s.height + 1) * w + s.x := by
      rw [hidx]; unfold cell
      rw [Nat.mul_comm (h0 - s.height - 2) w, Nat.mul_add_div hw, Nat.mul_add_mod, Nat.div_eq_of_lt hxl,
        Nat.mod_eq_of_lt hxl]
      congr 2; omega
    rw [hc]
    simp [Array.getD_eq_getD_getElem?, Array.getElem?_eq_getElem hin]

end Rdp.Rle16
