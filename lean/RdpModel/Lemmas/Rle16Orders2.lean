import RdpModel.Lemmas.Rle16Fgbg
/-
  The remaining order kinds (colour image, dithered run, FG/BG image, special orders) and
  the order-level simulation for EVERY kind.
-/
namespace Rdp.Rle16
open Rdp Rdp.Spec.Bitmap

/-- common end of the kind lemmas: once the per-pixel loop from the header's state is known
    to produce the reference raster, the states are related again -/
theorem sim_general {inp : Input} {w h0 : Nat} {s s2 : St} {d d' : DState} {src src1 src' : Bytes} {k : Order}
    {run p1 op cnt : Nat} {fom : UInt8} (c : Ctx inp w h0 s d src k run p1 src1)
    (h2 : headerSecond inp w (rawOp k) { s with pos := p1 } = .ok (op, fom, s2)) (g : GeoEq s s2)
    (hv : validOp op = true) (hop0 : op ≠ 0) (hcnt : cnt = run) (total : Nat) (htot : 0 < total)
    (hd1 : d'.dest.length = d.dest.length + total) (hd2 : d'.fgPel = s2.mix.toNat) (hd3 : d'.insertFg = false)
    (hd4 : d'.firstLine = (resetFirst w d).firstLine)
    (hnc : ¬ (d.dest.length < w ∧ w < d'.dest.length))
    (hpl : ∃ s', ploop inp op fom w (pmu w s2 + 1) { s2 with lastop := op, mixmask := 0, count := cnt } = .ok s' ∧
      Inv2 w h0 s' ∧ toNats (flat w h0 s') = d'.dest ∧ srcOf inp s'.pos = src' ∧ s'.insertmix = false ∧
      s'.mix = s2.mix ∧ s'.bicolour = false ∧ s'.lastop = op ∧ 0 < s'.x) :
    ∃ s', order inp w h0 s = .ok s' ∧ Rel inp w h0 s' d' src' := by
  subst hcnt
  have r := c.rel
  have hw := c.hw
  have hfl := firstLine_iff r
  rw [order_of c.st h2]
  let s3 : St := { s2 with lastop := op, mixmask := 0, count := cnt }
  have g3 : GeoEq s s3 := ⟨g.out, g.x, g.height, g.line, g.prev⟩
  have hi3 : Inv2 w h0 s3 := g3.inv2 r.inv
  have hpm : pmu w s3 = pmu w s2 := rfl
  obtain ⟨s', hp, hi', hf', q1, q2, q3, q4, q5, q6⟩ := hpl
  refine ⟨s', ?_, ?_⟩
  · have := pixels_eq_ploop inp op fom hw hv _ (pmu w s2 + 1) hi3.inv (fun h => absurd h hop0)
      (by show cnt + 1 < 2 ^ 32; have := c.runlt; omega) (mu_le hi3.inv) (by rw [← hpm]; omega)
    rw [this]
    exact hp
  · refine ⟨hi', q6, q4, q2, hf', by rw [q3]; exact hd2.symm, q1, ?_, ?_, ?_, ?_⟩
    · rw [hd3, q5]; constructor
      · intro h; cases h
      · intro h; exact absurd h hop0
    · intro hfl1
      rw [hd4] at hfl1
      have := hfl.mp hfl1
      omega
    · intro hfl0
      rw [hd4] at hfl0
      have : ¬ d.dest.length < w := fun h => by rw [hfl.mpr h] at hfl0; cases hfl0
      omega
    · intro h; rw [hd3] at h; cases h


theorem copyPixels_length (n : Nat) : ∀ (D D' : List Pixel) (src src' : Bytes), copyPixels D n src = some (D', src') →
    D'.length = D.length + n := by
  induction n with
  | zero => intro D D' src src' h; simp only [copyPixels, Option.some.injEq, Prod.mk.injEq] at h; rw [← h.1]; rfl
  | succ n ih =>
    intro D D' src src' h
    simp only [copyPixels] at h
    cases hr : readPixel src with
    | none => rw [hr] at h; cases h
    | some ar => rw [hr] at h; have := ih _ _ _ _ h; simp at this; omega

theorem pmu_room {w h0 : Nat} {s : St} {D : List Pixel} (h : Inv2 w h0 s) (hD : toNats (flat w h0 s) = D) {n : Nat}
    (hroom : D.length + n ≤ w * h0) : n < pmu w s + 1 := by
  have hlen : D.length = emitted w h0 s := by rw [← hD, toNats_length, flat_length]
  have := emitted_pmu h
  omega

theorem sim_colorImage {inp : Input} {w h0 : Nat} {s : St} {d d' : DState} {src src1 src' : Bytes} {run p1 : Nat}
    (c : Ctx inp w h0 s d src .colorImage run p1 src1)
    (hbody : orderBody w (resetFirst w d) .colorImage run src1 = some (d', src'))
    (hnc : ¬ (d.dest.length < w ∧ w < d'.dest.length)) :
    ∃ s', order inp w h0 s = .ok s' ∧ Rel inp w h0 s' d' src' := by
  have r := c.rel
  have hcap : d.dest.length + run ≤ w * h0 := by have := c.cap; simpa using this
  simp only [orderBody, resetFirst_dest] at hbody
  cases hcp : copyPixels d.dest run src1 with
  | none => rw [hcp] at hbody; cases hbody
  | some ds =>
    obtain ⟨D', srcx⟩ := ds
    rw [hcp] at hbody
    simp only [Option.bind, Option.some.injEq, Prod.mk.injEq] at hbody
    obtain ⟨hd', hs'⟩ := hbody
    subst hs'
    have h2 : headerSecond inp w (rawOp .colorImage) { s with pos := p1 } = .ok (4, 0, { s with pos := p1 }) := by
      unfold headerSecond rawOp; simp
    let s3 : St := { s with pos := p1, lastop := 4, mixmask := 0, count := run }
    have g3 : GeoEq s s3 := ⟨rfl, rfl, rfl, rfl, rfl⟩
    have hi3 : Inv2 w h0 s3 := g3.inv2 r.inv
    have hD3 : toNats (flat w h0 s3) = d.dest := by rw [g3.flat]; exact r.dest
    have hlenD := copyPixels_length run _ _ _ _ hcp
    obtain ⟨s', hp, hi', hf', q1, q2, q3, q4, q5, q6, q7⟩ := ploop_image (inp := inp) 0 c.hw run (pmu w s3 + 1) hi3 rfl hD3
      hcap (pmu_room hi3 hD3 hcap) c.src1 hcp
    refine sim_general c h2 ⟨rfl, rfl, rfl, rfl, rfl⟩ (by decide) (by decide) rfl run (Nat.pos_of_ne_zero c.run0) ?_ ?_ ?_ ?_ hnc
      ⟨s', hp, hi', ?_, q1, by rw [q2]; exact r.imx, q3, by rw [q4]; exact r.bic, q5, q7 (Or.inr (Nat.pos_of_ne_zero c.run0))⟩
    · rw [← hd']; exact hlenD
    · rw [← hd']; simp only [resetFirst_fg]; exact r.fg.symm
    · rw [← hd']
    · rw [← hd']
    · rw [hf', ← hd']

theorem sim_dithered {inp : Input} {w h0 : Nat} {s : St} {d d' : DState} {src src1 src' : Bytes} {run p1 : Nat}
    (c : Ctx inp w h0 s d src .ditheredRun run p1 src1)
    (hbody : orderBody w (resetFirst w d) .ditheredRun run src1 = some (d', src'))
    (hnc : ¬ (d.dest.length < w ∧ w < d'.dest.length)) :
    ∃ s', order inp w h0 s = .ok s' ∧ Rel inp w h0 s' d' src' := by
  have r := c.rel
  have hcap : d.dest.length + 2 * run ≤ w * h0 := by have := c.cap; simpa using this
  simp only [orderBody, resetFirst_dest] at hbody
  cases hrp1 : readPixel src1 with
  | none => rw [hrp1] at hbody; cases hbody
  | some av =>
    obtain ⟨a, src2⟩ := av
    rw [hrp1] at hbody
    simp only [Option.bind] at hbody
    cases hrp2 : readPixel src2 with
    | none => rw [hrp2] at hbody; cases hbody
    | some bv =>
      obtain ⟨b, src3⟩ := bv
      rw [hrp2] at hbody
      simp only [Option.some.injEq, Prod.mk.injEq] at hbody
      obtain ⟨hd', hs'⟩ := hbody
      subst hs'
      obtain ⟨va, ha1, ha2, ha3⟩ := readPixel_src (s := { s with pos := p1 }) c.src1 hrp1
      obtain ⟨vb, hb1, hb2, hb3⟩ := readPixel_src (s := { s with pos := p1 + 2 }) ha3 hrp2
      have h2 : headerSecond inp w (rawOp .ditheredRun) { s with pos := p1 } =
          .ok (8, 0, { s with pos := p1 + 2 + 2, c1 := va, c2 := vb }) := by
        unfold headerSecond rawOp
        simp only [show ¬ ((8 : Nat) = 0) by decide, if_false, if_true, ha1, Outcome.bind_ok]
        have : readU16 inp { s with pos := p1 + 2 } = .ok (vb, { s with pos := p1 + 2 + 2 }) := hb1
        simp only [this, Outcome.bind_ok]
      let s3 : St := { s with pos := p1 + 2 + 2, c1 := va, c2 := vb, lastop := 8, mixmask := 0, count := run }
      have g3 : GeoEq s s3 := ⟨rfl, rfl, rfl, rfl, rfl⟩
      have hi3 : Inv2 w h0 s3 := g3.inv2 r.inv
      have hD3 : toNats (flat w h0 s3) = d.dest := by rw [g3.flat]; exact r.dest
      obtain ⟨s', hp, hi', hf', q1, q2, q3, q4, q5, q6, q7⟩ := ploop_dither (inp := inp) 0 c.hw run (pmu w s3 + 1) hi3 rfl
        r.bic (by have := c.runlt; omega) hD3 hcap (by have := pmu_room hi3 hD3 hcap; omega)
      refine sim_general c h2 ⟨rfl, rfl, rfl, rfl, rfl⟩ (by decide) (by decide) rfl (2 * run)
        (by have := c.run0; omega) ?_ ?_ ?_ ?_ hnc
        ⟨s', hp, hi', ?_, by rw [q1]; exact hb3, by rw [q2]; exact r.imx, q3, q4, q5, q7 (Or.inr (Nat.pos_of_ne_zero c.run0))⟩
      · rw [← hd']; simp [List.length_flatten, List.sum_replicate_nat]; omega
      · rw [← hd']; simp only [resetFirst_fg]; exact r.fg.symm
      · rw [← hd']
      · rw [← hd']
      · rw [hf', ← hd', ha2, hb2]

/-- the first-scanline test for every pixel position of a run that does not cross its end -/
theorem range_fl {inp : Input} {w h0 : Nat} {s : St} {d : DState} {src : Bytes} (r : Rel inp w h0 s d src) {run : Nat}
    (hnc : ¬ (d.dest.length < w ∧ w < d.dest.length + run)) :
    ∀ L, d.dest.length ≤ L → L < d.dest.length + run → (L < w ↔ (resetFirst w d).firstLine = true) := by
  intro L h1 h2
  rw [firstLine_iff r]
  constructor
  · intro h; omega
  · intro h; omega

theorem sim_fgbg {inp : Input} {w h0 : Nat} {s : St} {d d' : DState} {src src1 src' : Bytes} {run p1 : Nat} {set : Bool}
    (c : Ctx inp w h0 s d src (.fgbgImage set) run p1 src1)
    (hbody : orderBody w (resetFirst w d) (.fgbgImage set) run src1 = some (d', src'))
    (hnc : ¬ (d.dest.length < w ∧ w < d'.dest.length)) :
    ∃ s', order inp w h0 s = .ok s' ∧ Rel inp w h0 s' d' src' := by
  have r := c.rel
  have hcap : d.dest.length + run ≤ w * h0 := by have := c.cap; simpa using this
  -- the part common to both variants, from the state the header leaves
  have common : ∀ (s2 : St) (op0 : Nat) (src2 : Bytes) (fg : Pixel),
      headerSecond inp w (rawOp (.fgbgImage set)) { s with pos := p1 } = .ok (2, 0, s2) → GeoEq s s2 →
      s2.insertmix = false → s2.bicolour = false → srcOf inp s2.pos = src2 → s2.mix.toNat = fg → op0 = 2 →
      (fgbgBytes d.dest w (resetFirst w d).firstLine fg (run + 1) run src2).bind (fun (dd, srcx) =>
        some ({ resetFirst w d with dest := dd, fgPel := fg, insertFg := false }, srcx)) = some (d', src') →
      ∃ s', order inp w h0 s = .ok s' ∧ Rel inp w h0 s' d' src' := by
    intro s2 _ src2 fg h2 g himx hbic hsrc hfg _ hb
    cases hfb : fgbgBytes d.dest w (resetFirst w d).firstLine fg (run + 1) run src2 with
    | none => rw [hfb] at hb; cases hb
    | some ds =>
      obtain ⟨D', srcx⟩ := ds
      rw [hfb] at hb
      simp only [Option.bind, Option.some.injEq, Prod.mk.injEq] at hb
      obtain ⟨hd', hs'⟩ := hb
      subst hs'
      rw [fgbgBytes_eq w _ fg (run + 1) run d.dest src2 0 0 (Or.inl rfl) (by omega)] at hfb
      let s3 : St := { s2 with lastop := 2, mixmask := 0, count := run }
      have g3 : GeoEq s s3 := ⟨g.out, g.x, g.height, g.line, g.prev⟩
      have hi3 : Inv2 w h0 s3 := g3.inv2 r.inv
      have hD3 : toNats (flat w h0 s3) = d.dest := by rw [g3.flat]; exact r.dest
      have hlenD := fgbgPix_length w _ fg 0 run _ _ _ _ _ _ hfb
      have hnc' : ¬ (d.dest.length < w ∧ w < d.dest.length + run) := by
        have e : d'.dest.length = d.dest.length + run := by rw [← hd']; exact hlenD
        rw [← e]; exact hnc
      obtain ⟨s', hp, hi', hf', q1, q2, q3, q4, q5, q6, q7⟩ := ploop_fgbg (inp := inp) (0 : UInt8) c.hw
        (resetFirst w d).firstLine run (pmu w s3 + 1) (s := s3) (k := 0) (m := 0) hi3 rfl hD3 hcap (pmu_room hi3 hD3 hcap) hsrc
        (Or.inl ⟨rfl, rfl⟩) (range_fl r hnc') (by show fgbgPix w _ s2.mix.toNat (0 : UInt8).toNat run d.dest 0 0 src2 = _; rw [hfg]; exact hfb)
      refine sim_general c h2 g (by decide) (by decide) rfl run (Nat.pos_of_ne_zero c.run0) ?_ ?_ ?_ ?_ hnc
        ⟨s', hp, hi', ?_, q1, by rw [q2]; exact himx, q3, by rw [q4]; exact hbic, q5, q7 (Or.inr (Nat.pos_of_ne_zero c.run0))⟩
      · rw [← hd']; exact hlenD
      · rw [← hd']; exact hfg.symm
      · rw [← hd']
      · rw [← hd']
      · rw [hf', ← hd']
  cases set with
  | false =>
    have h2 : headerSecond inp w (rawOp (.fgbgImage false)) { s with pos := p1 } = .ok (2, 0, { s with pos := p1 }) := by
      unfold headerSecond rawOp; simp
    simp only [orderBody, Bool.false_eq_true, if_false, resetFirst_dest, resetFirst_fg] at hbody
    exact common _ 2 src1 d.fgPel h2 ⟨rfl, rfl, rfl, rfl, rfl⟩ r.imx r.bic c.src1 r.fg rfl (by simpa [Option.bind] using hbody)
  | true =>
    simp only [orderBody, if_true, resetFirst_dest] at hbody
    cases hrp : readPixel src1 with
    | none => rw [hrp] at hbody; cases hbody
    | some av =>
      obtain ⟨a, src2⟩ := av
      rw [hrp] at hbody
      obtain ⟨v, hv1, hv2, hv3⟩ := readPixel_src (s := { s with pos := p1 }) c.src1 hrp
      have h2 : headerSecond inp w (rawOp (.fgbgImage true)) { s with pos := p1 } =
          .ok (2, 0, { s with pos := p1 + 2, mix := v }) := by
        unfold headerSecond rawOp; simp [hv1]
      exact common _ 2 src2 a h2 ⟨rfl, rfl, rfl, rfl, rfl⟩ r.imx r.bic hv3 hv2 rfl (by simpa [Option.bind] using hbody)


theorem sim_special {inp : Input} {w h0 : Nat} {s : St} {d d' : DState} {src src1 src' : Bytes} {run p1 mask : Nat}
    (c : Ctx inp w h0 s d src (.special mask) run p1 src1) (hmask : mask = 3 ∨ mask = 5) (hrun : run = 8)
    (hbody : orderBody w (resetFirst w d) (.special mask) run src1 = some (d', src'))
    (hnc : ¬ (d.dest.length < w ∧ w < d'.dest.length)) :
    ∃ s', order inp w h0 s = .ok s' ∧ Rel inp w h0 s' d' src' := by
  have r := c.rel
  subst hrun
  have hcap : d.dest.length + 8 ≤ w * h0 := by have := c.cap; simpa using this
  simp only [orderBody, resetFirst_dest, resetFirst_fg, Option.some.injEq, Prod.mk.injEq] at hbody
  obtain ⟨hd', hs'⟩ := hbody
  subst hs'
  have hlenW : ∀ (D : List Pixel) (fl : Bool) (m fg n i : Nat), (writeFgBg D w fl m fg n i).length = D.length + n := by
    intro D fl m fg n
    induction n generalizing D with
    | zero => intro i; rfl
    | succ n ih => intro i; simp only [writeFgBg]; rw [ih]; simp; omega
  have hlen' : d'.dest.length = d.dest.length + 8 := by rw [← hd']; exact hlenW _ _ _ _ _ _
  have hnc' : ¬ (d.dest.length < w ∧ w < d.dest.length + 8) := by rw [← hlen']; exact hnc
  -- both masks at once: `fom` is the mask
  have go : ∀ (fom : UInt8), fom.toNat = mask → fom ≠ 0 →
      headerSecond inp w (rawOp (.special mask)) { s with pos := p1 } = .ok (2, fom, { s with pos := p1, mask := fom }) →
      ∃ s', order inp w h0 s = .ok s' ∧ Rel inp w h0 s' d' src1 := by
    intro fom hfm hf0 h2
    let s3 : St := { s with pos := p1, mask := fom, lastop := 2, mixmask := 0, count := 8 }
    have g3 : GeoEq s s3 := ⟨rfl, rfl, rfl, rfl, rfl⟩
    have hi3 : Inv2 w h0 s3 := g3.inv2 r.inv
    have hD3 : toNats (flat w h0 s3) = d.dest := by rw [g3.flat]; exact r.dest
    have hm0 : mask ≠ 0 := by rcases hmask with rfl | rfl <;> decide
    have hsp := special_eq w (resetFirst w d).firstLine d.fgPel mask hm0 d.dest src1
    obtain ⟨s', hp, hi', hf', q1, q2, q3, q4, q5, q6, q7⟩ := ploop_fgbg (inp := inp) fom c.hw
      (resetFirst w d).firstLine 8 (pmu w s3 + 1) (s := s3) (k := 0) (m := 0) hi3 rfl hD3 hcap (pmu_room hi3 hD3 hcap) c.src1
      (Or.inl ⟨rfl, rfl⟩) (range_fl r hnc') (by show fgbgPix w _ s.mix.toNat fom.toNat 8 d.dest 0 0 src1 = _; rw [r.fg, hfm]; exact hsp)
    refine sim_general c h2 ⟨rfl, rfl, rfl, rfl, rfl⟩ (by decide) (by decide) rfl 8 (by omega) hlen' ?_ ?_ ?_ hnc
      ⟨s', hp, hi', ?_, q1, by rw [q2]; exact r.imx, q3, by rw [q4]; exact r.bic, q5, q7 (Or.inr (by omega))⟩
    · rw [← hd']; exact r.fg.symm
    · rw [← hd']
    · rw [← hd']
    · rw [hf', ← hd']
  rcases hmask with rfl | rfl
  · exact go 3 rfl (by decide) (by unfold headerSecond rawOp; simp)
  · exact go 5 rfl (by decide) (by unfold headerSecond rawOp; simp)

/-- **One order, of any kind.**  If the reference decoder accepts the next order and it does
    not cross the end of the first scanline, the port decodes it to the same pixels and the
    two decoders are again in related states. -/
theorem order_sim_all {inp : Input} {w h0 : Nat} {s : St} {d d' : DState} {src src' : Bytes} (r : Rel inp w h0 s d src)
    (hw : 0 < w) (hstep : stepOrder w (w * h0) d src = some (d', src')) (hne : src ≠ [])
    (hnc : ¬ (d.dest.length < w ∧ w < d'.dest.length)) :
    ∃ s', order inp w h0 s = .ok s' ∧ Rel inp w h0 s' d' src' := by
  cases src with
  | nil => exact absurd rfl hne
  | cons b rest =>
    obtain ⟨k, f, run, src1, hcl, hlen, hrun0, hcap, hbody⟩ := stepOrder_some hstep
    have hb := b.toNat_lt
    have hpc := class_table b.toNat hb k f hcl
    obtain ⟨p1, hst, hsrc1, _⟩ := header_len r.src hpc hlen
    have hrl := run_bound b.toNat hb k f hcl rest run src1 hlen
    have c : Ctx inp w h0 s d (b :: rest) k run p1 src1 :=
      ⟨r, hw, hst, hsrc1, hrun0, hrl, by rw [resetFirst_dest] at hcap; exact hcap⟩
    cases k with
    | bgRun => exact sim_bgRun c hbody hnc
    | fgRun set => exact sim_fgRun c hbody hnc
    | colorRun => exact sim_colorRun c hbody hnc
    | white =>
      have hf := white_black_run b.toNat hb _ f hcl (Or.inl rfl)
      subst hf
      simp only [readLen, Option.some.injEq, Prod.mk.injEq] at hlen
      exact sim_white c hlen.1.symm hbody hnc
    | black =>
      have hf := white_black_run b.toNat hb _ f hcl (Or.inr rfl)
      subst hf
      simp only [readLen, Option.some.injEq, Prod.mk.injEq] at hlen
      exact sim_black c hlen.1.symm hbody hnc
    | fgbgImage set => exact sim_fgbg c hbody hnc
    | colorImage => exact sim_colorImage c hbody hnc
    | ditheredRun => exact sim_dithered c hbody hnc
    | special m =>
      obtain ⟨hm, hf⟩ := class_special b.toNat hb m f hcl
      subst hf
      simp only [readLen, Option.some.injEq, Prod.mk.injEq] at hlen
      exact sim_special c hm hlen.1.symm hbody hnc

end Rdp.Rle16
