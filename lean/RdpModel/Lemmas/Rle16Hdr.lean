import RdpModel.Lemmas.Rle16Pix
import RdpModel.Spec.Bitmap
/-
  Order headers: the port's three-stage header decoding (`headerFirst`, `headerCount`,
  `headerSecond` of Codec/Rle16.lean) against `parseHeader` of the reference decoder
  (Spec/Bitmap.lean).  Both are factored through a classification of the code byte; the two
  classifications are compared on all 256 code bytes by kernel evaluation.
-/
namespace Rdp.Rle16
open Rdp Rdp.Spec.Bitmap

/-- how the run length of an order is encoded -/
inductive LenForm where
  | mega                 -- two more bytes, little endian
  | fixed (n : Nat)      -- in the code byte
  | ext (base : Nat)     -- one more byte, plus `base`
deriving Repr, DecidableEq

/-- the reference decoder's reading of a code byte -/
def specClass (c : Nat) : Option (Order × LenForm) :=
  if c = 0xF0 then some (.bgRun, .mega)
  else if c = 0xF1 then some (.fgRun false, .mega)
  else if c = 0xF2 then some (.fgbgImage false, .mega)
  else if c = 0xF3 then some (.colorRun, .mega)
  else if c = 0xF4 then some (.colorImage, .mega)
  else if c = 0xF6 then some (.fgRun true, .mega)
  else if c = 0xF7 then some (.fgbgImage true, .mega)
  else if c = 0xF8 then some (.ditheredRun, .mega)
  else if c = 0xF9 then some (.special 0x03, .fixed 8)
  else if c = 0xFA then some (.special 0x05, .fixed 8)
  else if c = 0xFD then some (.white, .fixed 1)
  else if c = 0xFE then some (.black, .fixed 1)
  else if c ≥ 0xF0 then none
  else if c ≥ 0xC0 then
    let k : Option Order := if c / 16 = 0xC then some (.fgRun true) else if c / 16 = 0xD then some (.fgbgImage true)
                            else if c / 16 = 0xE then some .ditheredRun else none
    match k with
    | none => none
    | some k =>
      let l := c % 16
      if k = .fgbgImage true then (if l = 0 then some (k, .ext 1) else some (k, .fixed (l * 8)))
      else (if l = 0 then some (k, .ext 16) else some (k, .fixed l))
  else
    let code := c / 32
    let k : Option Order := if code = 0 then some .bgRun else if code = 1 then some (.fgRun false)
      else if code = 2 then some (.fgbgImage false) else if code = 3 then some .colorRun
      else if code = 4 then some .colorImage else none
    match k with
    | none => none
    | some k =>
      let l := c % 32
      if k = .fgbgImage false then (if l = 0 then some (k, .ext 1) else some (k, .fixed (l * 8)))
      else (if l = 0 then some (k, .ext 32) else some (k, .fixed l))

/-- run length and remaining bytes for a length form -/
def readLen (f : LenForm) (rest : Bytes) : Option (Nat × Bytes) :=
  match f with
  | .mega => (match rest with | lo :: hi :: r => some (lo.toNat + 256 * hi.toNat, r) | _ => none)
  | .fixed n => some (n, rest)
  | .ext base => (match rest with | n :: r => some (n.toNat + base, r) | [] => none)

/-- how the reference decoder uses the classification -/
def parseClass (c : Nat) (rest : Bytes) : Option (Order × Nat × Bytes) :=
  (specClass c).bind fun kl => (readLen kl.2 rest).map fun nr => (kl.1, nr.1, nr.2)

theorem parseClass_some {c : Nat} {rest : Bytes} {k : Order} {f : LenForm} (h : specClass c = some (k, f)) :
    parseClass c rest = (readLen f rest).map fun nr => (k, nr.1, nr.2) := by
  simp [parseClass, h]

theorem parseClass_none {c : Nat} {rest : Bytes} (h : specClass c = none) : parseClass c rest = none := by
  simp [parseClass, h]

macro "lit_case" h:ident rest:ident : tactic =>
  `(tactic| (subst $h; cases $rest:ident with
      | nil => rfl
      | cons lo r => cases r <;> rfl))

theorem parseHeader_class (b : UInt8) (rest : Bytes) :
    parseHeader (b :: rest) = parseClass b.toNat rest := by
  have hb : b.toNat < 256 := b.toNat_lt
  unfold parseHeader
  simp only []
  generalize b.toNat = c at hb ⊢
  by_cases h0 : c = 0xF0; · lit_case h0 rest
  by_cases h1 : c = 0xF1; · lit_case h1 rest
  by_cases h2 : c = 0xF2; · lit_case h2 rest
  by_cases h3 : c = 0xF3; · lit_case h3 rest
  by_cases h4 : c = 0xF4; · lit_case h4 rest
  by_cases h6 : c = 0xF6; · lit_case h6 rest
  by_cases h7 : c = 0xF7; · lit_case h7 rest
  by_cases h8 : c = 0xF8; · lit_case h8 rest
  by_cases h9 : c = 0xF9; · subst h9; rfl
  by_cases hA : c = 0xFA; · subst hA; rfl
  by_cases hD : c = 0xFD; · subst hD; rfl
  by_cases hE : c = 0xFE; · subst hE; rfl
  have hs : specClass c = (if c ≥ 0xF0 then none
      else if c ≥ 0xC0 then
        (match (if c / 16 = 0xC then some (Order.fgRun true) else if c / 16 = 0xD then some (Order.fgbgImage true)
                else if c / 16 = 0xE then some Order.ditheredRun else none : Option Order) with
        | none => none
        | some k =>
          if k = .fgbgImage true then (if c % 16 = 0 then some (k, .ext 1) else some (k, .fixed (c % 16 * 8)))
          else (if c % 16 = 0 then some (k, .ext 16) else some (k, .fixed (c % 16))))
      else
        (match (if c / 32 = 0 then some Order.bgRun else if c / 32 = 1 then some (Order.fgRun false)
          else if c / 32 = 2 then some (Order.fgbgImage false) else if c / 32 = 3 then some Order.colorRun
          else if c / 32 = 4 then some Order.colorImage else none : Option Order) with
        | none => none
        | some k =>
          if k = .fgbgImage false then (if c % 32 = 0 then some (k, .ext 1) else some (k, .fixed (c % 32 * 8)))
          else (if c % 32 = 0 then some (k, .ext 32) else some (k, .fixed (c % 32))))) := by
    unfold specClass
    simp only [if_neg h0, if_neg h1, if_neg h2, if_neg h3, if_neg h4, if_neg h6, if_neg h7, if_neg h8, if_neg h9,
      if_neg hA, if_neg hD, if_neg hE]
  simp only [if_neg h0, if_neg h1, if_neg h2, if_neg h3, if_neg h4, if_neg h6, if_neg h7, if_neg h8, if_neg h9,
    if_neg hA, if_neg hD, if_neg hE]
  unfold parseClass
  rw [hs]
  by_cases hF : c ≥ 0xF0
  · simp only [if_pos hF]; rfl
  simp only [if_neg hF]
  by_cases hC : c ≥ 0xC0
  · simp only [if_pos hC]
    have hq : c / 16 = 0xC ∨ c / 16 = 0xD ∨ c / 16 = 0xE := by omega
    rcases hq with hq | hq | hq <;> simp only [hq] <;> by_cases hl : c % 16 = 0 <;> simp [hl, readLen] <;>
      cases rest <;> rfl
  · simp only [if_neg hC]
    have hq : c / 32 = 0 ∨ c / 32 = 1 ∨ c / 32 = 2 ∨ c / 32 = 3 ∨ c / 32 = 4 ∨ c / 32 = 5 := by omega
    rcases hq with hq | hq | hq | hq | hq | hq <;> simp only [hq] <;> by_cases hl : c % 32 = 0 <;>
      simp [hl, readLen] <;> cases rest <;> rfl

/-- the port's reading of a code byte: raw opcode and length form -/
def portClass (c : Nat) : Nat × LenForm :=
  let hi := c >>> 4
  if hi = 0xC ∨ hi = 0xD ∨ hi = 0xE then
    let op := hi - 6
    let count := c &&& 0xf
    (op, if count = 0 then .ext (if op = 2 ∨ op = 7 then 1 else 16)
         else .fixed (if op = 2 ∨ op = 7 then count <<< 3 else count))
  else if hi = 0xF then
    let op := c &&& 0xf
    if op < 9 then (op, .mega) else if op < 0xb then (op, .fixed 8) else (op, .fixed 1)
  else
    let op := hi >>> 1
    let count := c &&& 0x1f
    (op, if count = 0 then .ext (if op = 2 ∨ op = 7 then 1 else 32)
         else .fixed (if op = 2 ∨ op = 7 then count <<< 3 else count))

/-- raw opcode of the port for each order of the reference decoder -/
def rawOp : Order → Nat
  | .bgRun => 0 | .fgRun false => 1 | .fgbgImage false => 2 | .colorRun => 3 | .colorImage => 4
  | .fgRun true => 6 | .fgbgImage true => 7 | .ditheredRun => 8
  | .special m => if m = 3 then 9 else 0xa
  | .white => 0xd | .black => 0xe

/-- **The two classifications agree on every code byte the reference decoder accepts.** -/
theorem class_table : ∀ c, c < 256 → ∀ k f, specClass c = some (k, f) → portClass c = (rawOp k, f) := by
  have h : ∀ c, c < 256 → (match specClass c with
      | none => true
      | some (k, f) => decide (portClass c = (rawOp k, f))) = true := by decide +kernel
  intro c hc k f hs
  have := h c hc
  rw [hs] at this
  simpa using this

/-- specials carry masks 3 and 5 only -/
theorem class_special : ∀ c, c < 256 → ∀ m f, specClass c = some (.special m, f) → (m = 3 ∨ m = 5) ∧ f = .fixed 8 := by
  have h : ∀ c, c < 256 → (match specClass c with
      | some (.special m, f) => decide ((m = 3 ∨ m = 5) ∧ f = .fixed 8)
      | _ => true) = true := by decide +kernel
  intro c hc m f hs
  have := h c hc
  rw [hs] at this
  simpa using this

end Rdp.Rle16

namespace Rdp.Rle16
open Rdp Rdp.Spec.Bitmap

/-! ### the input as a list -/

/-- the unread part of the input -/
def srcOf (inp : Input) (p : Nat) : Bytes := inp.toList.drop p

theorem srcOf_cons {inp : Input} {p : Nat} {b : UInt8} {r : Bytes} (h : srcOf inp p = b :: r) :
    ∃ hp : p < inp.size, inp[p] = b ∧ srcOf inp (p + 1) = r := by
  unfold srcOf at h ⊢
  have hp : p < inp.toList.length := by
    rcases Nat.lt_or_ge p inp.toList.length with hlt | hge
    · exact hlt
    · rw [List.drop_eq_nil_of_le hge] at h; cases h
  rw [List.drop_eq_getElem_cons hp] at h
  injection h with h1 h2
  refine ⟨by simpa using hp, ?_, h2⟩
  rw [← h1]; simp

theorem readU8_src {inp : Input} {s : St} {b : UInt8} {r : Bytes} (h : srcOf inp s.pos = b :: r) :
    readU8 inp s = .ok (b, { s with pos := s.pos + 1 }) ∧ srcOf inp (s.pos + 1) = r := by
  obtain ⟨hp, hb, hr⟩ := srcOf_cons h
  refine ⟨?_, hr⟩
  unfold readU8; simp [hp, hb]

theorem u16_toNat (lo hi : UInt8) : (lo.toUInt16 ||| (hi.toUInt16 <<< 8)).toNat = lo.toNat + 256 * hi.toNat := by
  have h1 := lo.toNat_lt
  have h2 := hi.toNat_lt
  rw [UInt16.toNat_or, UInt16.toNat_shiftLeft, UInt8.toNat_toUInt16, UInt8.toNat_toUInt16]
  have e : (8 : UInt16).toNat % 16 = 8 := by decide
  rw [e, Nat.shiftLeft_eq, Nat.mod_eq_of_lt (by omega), Nat.or_comm, ← Nat.shiftLeft_eq,
    ← Nat.shiftLeft_add_eq_or_of_lt (by omega), Nat.shiftLeft_eq]
  omega

theorem readU16_src {inp : Input} {s : St} {lo hi : UInt8} {r : Bytes} (h : srcOf inp s.pos = lo :: hi :: r) :
    readU16 inp s = .ok (lo.toUInt16 ||| (hi.toUInt16 <<< 8), { s with pos := s.pos + 2 }) ∧
      srcOf inp (s.pos + 2) = r := by
  obtain ⟨hp, hb, hr⟩ := srcOf_cons h
  obtain ⟨hp2, hb2, hr2⟩ := srcOf_cons hr
  refine ⟨?_, hr2⟩
  unfold readU16; simp [hp2, hb, hb2]

/-- the first two header stages (code byte, run length) in terms of the classification -/
theorem header_len {inp : Input} {s : St} {b : UInt8} {rest rest1 : Bytes} {op run : Nat} {f : LenForm}
    (hsrc : srcOf inp s.pos = b :: rest) (hcl : portClass b.toNat = (op, f)) (hlen : readLen f rest = some (run, rest1)) :
    ∃ p1, ((readU8 inp s).bind fun (code, s) =>
        (headerFirst inp code.toNat s).bind fun (op', count, offset, s) =>
        (headerCount inp op' count offset s).bind fun (count, s) => Outcome.ok (op', count, s))
        = .ok (op, run, { s with pos := p1 }) ∧ srcOf inp p1 = rest1 ∧ s.pos < p1 := by
  obtain ⟨h8, hr8⟩ := readU8_src hsrc
  rw [h8]
  simp only [Outcome.bind]
  generalize b.toNat = c at hcl
  unfold portClass at hcl
  unfold headerFirst
  simp only [] at hcl ⊢
  by_cases hA : c >>> 4 = 0xC ∨ c >>> 4 = 0xD ∨ c >>> 4 = 0xE
  · simp only [if_pos hA] at hcl ⊢
    try simp only [Outcome.bind]
    unfold headerCount
    simp only [show (16 : Nat) ≠ 0 by decide, if_true, ne_eq, not_false_eq_true]
    by_cases h0 : c &&& 0xf = 0
    · simp only [if_pos h0] at hcl ⊢
      injection hcl with e1 e2
      subst e1 e2
      cases rest with
      | nil => simp [readLen] at hlen
      | cons n r =>
        simp only [readLen, Option.some.injEq, Prod.mk.injEq] at hlen
        obtain ⟨hn, hr⟩ := hlen
        have hs1 : srcOf inp ({ s with pos := s.pos + 1 } : St).pos = n :: r := hr8
        obtain ⟨hb, hrb⟩ := readU8_src hs1
        rw [hb]
        refine ⟨s.pos + 1 + 1, ?_, by rw [← hr]; exact hrb, by omega⟩
        simp only [Outcome.bind]
        split <;> simp_all
    · simp only [if_neg h0] at hcl ⊢
      injection hcl with e1 e2
      subst e1 e2
      simp only [readLen, Option.some.injEq, Prod.mk.injEq] at hlen
      obtain ⟨hn, hr⟩ := hlen
      refine ⟨s.pos + 1, ?_, by rw [← hr]; exact hr8, by omega⟩
      by_cases hfm : (c >>> 4 - 6 = 2 ∨ c >>> 4 - 6 = 7) <;> simp only [hfm, if_true, if_false] at hn ⊢ <;>
        simp [Outcome.bind, hn]
  · simp only [if_neg hA] at hcl ⊢
    by_cases hF : c >>> 4 = 0xF
    · simp only [if_pos hF] at hcl ⊢
      by_cases h9 : c &&& 0xf < 9
      · simp only [if_pos h9] at hcl ⊢
        injection hcl with e1 e2
        subst e1 e2
        match rest, hlen, hr8 with
        | lo :: hi :: r, hlen, hr8 =>
          simp only [readLen, Option.some.injEq, Prod.mk.injEq] at hlen
          obtain ⟨hn, hr⟩ := hlen
          have hs1 : srcOf inp ({ s with pos := s.pos + 1 } : St).pos = lo :: hi :: r := hr8
          obtain ⟨hb, hrb⟩ := readU16_src hs1
          rw [hb]
          refine ⟨s.pos + 1 + 2, ?_, by rw [← hr]; exact hrb, by omega⟩
          simp only [Outcome.bind, headerCount, ne_eq, not_true_eq_false, if_false, u16_toNat, hn]
        | [], hlen, _ => simp [readLen] at hlen
        | [_], hlen, _ => simp [readLen] at hlen
      · simp only [if_neg h9] at hcl ⊢
        by_cases hB : c &&& 0xf < 0xb
        · simp only [if_pos hB] at hcl ⊢
          injection hcl with e1 e2
          subst e1 e2
          simp only [readLen, Option.some.injEq, Prod.mk.injEq] at hlen
          obtain ⟨hn, hr⟩ := hlen
          refine ⟨s.pos + 1, ?_, by rw [← hr]; exact hr8, by omega⟩
          simp [Outcome.bind, headerCount, hn]
        · simp only [if_neg hB] at hcl ⊢
          injection hcl with e1 e2
          subst e1 e2
          simp only [readLen, Option.some.injEq, Prod.mk.injEq] at hlen
          obtain ⟨hn, hr⟩ := hlen
          refine ⟨s.pos + 1, ?_, by rw [← hr]; exact hr8, by omega⟩
          simp [Outcome.bind, headerCount, hn]
    · simp only [if_neg hF] at hcl ⊢
      try simp only [Outcome.bind]
      unfold headerCount
      simp only [show (32 : Nat) ≠ 0 by decide, if_true, ne_eq, not_false_eq_true]
      by_cases h0 : c &&& 0x1f = 0
      · simp only [if_pos h0] at hcl ⊢
        injection hcl with e1 e2
        subst e1 e2
        cases rest with
        | nil => simp [readLen] at hlen
        | cons n r =>
          simp only [readLen, Option.some.injEq, Prod.mk.injEq] at hlen
          obtain ⟨hn, hr⟩ := hlen
          have hs1 : srcOf inp ({ s with pos := s.pos + 1 } : St).pos = n :: r := hr8
          obtain ⟨hb, hrb⟩ := readU8_src hs1
          rw [hb]
          refine ⟨s.pos + 1 + 1, ?_, by rw [← hr]; exact hrb, by omega⟩
          simp only [Outcome.bind]
          split <;> simp_all
      · simp only [if_neg h0] at hcl ⊢
        injection hcl with e1 e2
        subst e1 e2
        simp only [readLen, Option.some.injEq, Prod.mk.injEq] at hlen
        obtain ⟨hn, hr⟩ := hlen
        refine ⟨s.pos + 1, ?_, by rw [← hr]; exact hr8, by omega⟩
        by_cases hfm : (c >>> 4 >>> 1 = 2 ∨ c >>> 4 >>> 1 = 7) <;> simp only [hfm, if_true, if_false] at hn ⊢ <;>
          simp [Outcome.bind, hn]

end Rdp.Rle16
