import RdpModel.Codec.Rle16
/-
  Index safety of the interleaved-RLE decoder: from the buffer `BitmapEvent::decompress`
  allocates, no access is out of range, `line.unwrap()` never meets `None`, no counter
  over/underflows and no loop spins — for every width (0 included), height and input.
-/
namespace Rdp.Rle16
open Rdp

/-- geometric invariant of the decoder state -/
structure Inv (w h0 : Nat) (s : St) : Prop where
  size : h0 * w ≤ s.out.size
  hle : s.height ≤ h0
  xle : s.x ≤ w
  lineNone : s.line = none → s.prev = none
  lineSome : ∀ l, s.line = some l → l = s.height * w ∧ s.height < h0
  prevSome : ∀ e, s.prev = some e → e = (s.height + 1) * w ∧ s.height + 1 < h0
  xlt : s.x < w → s.line ≠ none

/-- a value satisfying `P`, or an error — never a panic -/
def Safe {α : Type} (r : Outcome α) (P : α → Prop) : Prop :=
  match r with
  | .ok a => P a
  | .err _ => True
  | .panic _ => False

theorem Safe.bind {α β : Type} {r : Outcome α} {P : α → Prop} {Q : β → Prop} {f : α → Outcome β}
    (h : Safe r P) (hf : ∀ a, P a → Safe (f a) Q) : Safe (r.bind f) Q := by
  cases r with
  | ok a => exact hf a h
  | err e => trivial
  | panic p => exact h

theorem Safe.mono {α : Type} {r : Outcome α} {P Q : α → Prop} (h : Safe r P) (hpq : ∀ a, P a → Q a) : Safe r Q := by
  cases r with
  | ok a => exact hpq a h
  | err e => trivial
  | panic p => exact h

theorem Safe.noPanic {α : Type} {r : Outcome α} {P : α → Prop} (h : Safe r P) : ∀ p, r ≠ .panic p := by
  intro p hp; rw [hp] at h; exact h

/-- everything `Inv` looks at, plus flags the callers care about -/
def SameGeo (s s' : St) : Prop :=
  s'.x = s.x ∧ s'.height = s.height ∧ s'.line = s.line ∧ s'.prev = s.prev ∧ s'.out.size = s.out.size
    ∧ s'.insertmix = s.insertmix ∧ s.pos ≤ s'.pos

theorem SameGeo.refl (s : St) : SameGeo s s := ⟨rfl, rfl, rfl, rfl, rfl, rfl, Nat.le_refl _⟩
theorem SameGeo.trans {a b c : St} (h1 : SameGeo a b) (h2 : SameGeo b c) : SameGeo a c := by
  obtain ⟨a1, a2, a3, a4, a5, a6, a7⟩ := h1; obtain ⟨b1, b2, b3, b4, b5, b6, b7⟩ := h2
  exact ⟨by rw [b1, a1], by rw [b2, a2], by rw [b3, a3], by rw [b4, a4], by rw [b5, a5], by rw [b6, a6],
    Nat.le_trans a7 b7⟩

theorem Inv.of_geo {w h0 : Nat} {s s' : St} (h : Inv w h0 s) (g : SameGeo s s') : Inv w h0 s' := by
  obtain ⟨g1, g2, g3, g4, g5, _, _⟩ := g
  exact ⟨by rw [g5]; exact h.size, by rw [g2]; exact h.hle, by rw [g1]; exact h.xle,
    by rw [g3, g4]; exact h.lineNone, by rw [g3, g2]; exact h.lineSome,
    by rw [g4, g2]; exact h.prevSome, by rw [g1, g3]; exact h.xlt⟩

theorem mul_bound {a b w x : Nat} (h1 : a < b) (hx : x < w) : a * w + x < b * w := by
  have : (a + 1) * w ≤ b * w := Nat.mul_le_mul_right w h1
  rw [Nat.add_mul] at this; omega

theorem put_safe {w h0 : Nat} {s : St} (h : Inv w h0 s) (hx : s.x < w) (v : UInt16) :
    Safe (put s v) (fun s' => SameGeo s s' ∧ s'.count = s.count) := by
  unfold put
  cases hl : s.line with
  | none => exact absurd hl (h.xlt hx)
  | some l =>
    obtain ⟨rfl, hh⟩ := h.lineSome l hl
    have hb : s.height * w + s.x < s.out.size := Nat.lt_of_lt_of_le (mul_bound hh hx) h.size
    simp only [hb, if_true]
    exact ⟨⟨rfl, rfl, by simp [hl], rfl, by simp, rfl, Nat.le_refl _⟩, rfl⟩

theorem above_safe {w h0 : Nat} {s : St} (h : Inv w h0 s) (hx : s.x < w) {e : Nat} (he : s.prev = some e) :
    Safe (above s e) (fun _ => True) := by
  unfold above
  obtain ⟨rfl, hh⟩ := h.prevSome e he
  have hb : (s.height + 1) * w + s.x < s.out.size := Nat.lt_of_lt_of_le (mul_bound hh hx) h.size
  simp only [hb, dite_true]
  trivial

theorem putAbove_safe {w h0 : Nat} {s : St} (h : Inv w h0 s) (hx : s.x < w) (f : UInt16 → UInt16) (d : UInt16) :
    Safe (putAbove s f d) (fun s' => SameGeo s s' ∧ s'.count = s.count) := by
  unfold putAbove
  cases hp : s.prev with
  | none => exact put_safe h hx d
  | some e => exact (above_safe h hx hp).bind (fun v _ => put_safe h hx (f v))

theorem readU8_safe (inp : Input) (s : St) :
    Safe (readU8 inp s) (fun bs => SameGeo s bs.2 ∧ bs.2.count = s.count ∧ bs.2.pos = s.pos + 1 ∧
      bs.2.lastop = s.lastop) := by
  unfold readU8; split
  · exact ⟨⟨rfl, rfl, rfl, rfl, rfl, rfl, by simp⟩, rfl, rfl, rfl⟩
  · trivial

theorem readU16_safe (inp : Input) (s : St) :
    Safe (readU16 inp s) (fun vs => SameGeo s vs.2 ∧ vs.2.count = s.count ∧ vs.2.pos = s.pos + 2 ∧
      vs.2.lastop = s.lastop) := by
  unfold readU16; split
  · exact ⟨⟨rfl, rfl, rfl, rfl, rfl, rfl, by simp⟩, rfl, rfl, rfl⟩
  · trivial

theorem maskStep_safe (inp : Input) (fom : UInt8) (s : St) :
    Safe (maskStep inp fom s) (fun s1 => SameGeo s s1 ∧ s1.count = s.count) := by
  unfold maskStep
  split
  · split
    · exact ⟨⟨rfl, rfl, rfl, rfl, rfl, rfl, Nat.le_refl _⟩, rfl⟩
    · exact (readU8_safe inp s).bind (fun bs ⟨g, c, _, _⟩ =>
        ⟨⟨g.1, g.2.1, g.2.2.1, g.2.2.2.1, g.2.2.2.2.1, g.2.2.2.2.2.1, g.2.2.2.2.2.2⟩, c⟩)
  · exact ⟨⟨rfl, rfl, rfl, rfl, rfl, rfl, Nat.le_refl _⟩, rfl⟩

def SameLines (s s' : St) : Prop :=
  s'.height = s.height ∧ s'.line = s.line ∧ s'.prev = s.prev ∧ s'.out.size = s.out.size
    ∧ s'.insertmix = s.insertmix ∧ s.pos ≤ s'.pos

theorem SameLines.refl (s : St) : SameLines s s := ⟨rfl, rfl, rfl, rfl, rfl, Nat.le_refl _⟩
theorem SameLines.trans {a b c : St} (h1 : SameLines a b) (h2 : SameLines b c) : SameLines a c := by
  obtain ⟨a2, a3, a4, a5, a6, a7⟩ := h1; obtain ⟨b2, b3, b4, b5, b6, b7⟩ := h2
  exact ⟨by rw [b2, a2], by rw [b3, a3], by rw [b4, a4], by rw [b5, a5], by rw [b6, a6], Nat.le_trans a7 b7⟩
theorem SameGeo.lines {s s' : St} (g : SameGeo s s') : SameLines s s' :=
  ⟨g.2.1, g.2.2.1, g.2.2.2.1, g.2.2.2.2.1, g.2.2.2.2.2.1, g.2.2.2.2.2.2⟩

theorem Inv.move4 {w h0 : Nat} {s s' : St} (h : Inv w h0 s)
    (g2 : s'.height = s.height) (g3 : s'.line = s.line) (g4 : s'.prev = s.prev) (g5 : s'.out.size = s.out.size)
    (hx : s'.x ≤ w) (hl : s'.x < w → s.line ≠ none) : Inv w h0 s' :=
  ⟨by rw [g5]; exact h.size, by rw [g2]; exact h.hle, hx, by rw [g3, g4]; exact h.lineNone,
    by rw [g3, g2]; exact h.lineSome, by rw [g4, g2]; exact h.prevSome, by rw [g3]; exact hl⟩

theorem Inv.move {w h0 : Nat} {s s' : St} (h : Inv w h0 s) (g : SameLines s s')
    (hx : s'.x ≤ w) (hl : s'.x < w → s.line ≠ none) : Inv w h0 s' :=
  h.move4 g.1 g.2.1 g.2.2.1 g.2.2.2.1 hx hl

/-- every `$expr` is index-safe, leaves the geometry alone and changes the counter by 0 or +1 -/
theorem expr_safe {w h0 : Nat} (inp : Input) (op : Nat) (fom : UInt8) {s : St}
    (h : Inv w h0 s) (hx : s.x < w) (hc : s.count + 1 < 2 ^ 32) :
    Safe (expr inp op fom s) (fun s' => SameGeo s s' ∧ (s'.count = s.count ∨ s'.count = s.count + 1)) := by
  unfold expr
  split
  · exact (putAbove_safe h hx _ _).mono (fun _ hs => ⟨hs.1, Or.inl hs.2⟩)
  · exact (putAbove_safe h hx _ _).mono (fun _ hs => ⟨hs.1, Or.inl hs.2⟩)
  · refine (maskStep_safe inp fom s).bind ?_
    intro s1 ⟨g1, c1⟩
    have h1 : Inv w h0 s1 := h.of_geo g1
    have hx1 : s1.x < w := by rw [g1.1]; exact hx
    exact (putAbove_safe h1 hx1 _ _).mono (fun _ hs => ⟨g1.trans hs.1, Or.inl (by rw [hs.2, c1])⟩)
  · exact (put_safe h hx _).mono (fun _ hs => ⟨hs.1, Or.inl hs.2⟩)
  · refine (readU16_safe inp s).bind ?_
    intro vs ⟨g1, c1, _, _⟩
    have h1 : Inv w h0 vs.2 := h.of_geo g1
    have hx1 : vs.2.x < w := by rw [g1.1]; exact hx
    exact (put_safe h1 hx1 _).mono (fun _ hs => ⟨g1.trans hs.1, Or.inl (by rw [hs.2, c1])⟩)
  · split
    · refine (put_safe h hx _).bind ?_
      intro s' ⟨g, c⟩
      exact ⟨⟨g.1, g.2.1, g.2.2.1, g.2.2.2.1, g.2.2.2.2.1, g.2.2.2.2.2.1, g.2.2.2.2.2.2⟩, Or.inl c⟩
    · refine (put_safe h hx _).bind ?_
      intro s' ⟨g, c⟩
      have : ¬ (s'.count + 1 ≥ 2 ^ 32) := by rw [c]; omega
      simp only [this, if_false]
      exact ⟨⟨g.1, g.2.1, g.2.2.1, g.2.2.2.1, g.2.2.2.2.1, g.2.2.2.2.2.1, g.2.2.2.2.2.2⟩, Or.inr (by simp [c])⟩
  · exact (put_safe h hx _).mono (fun _ hs => ⟨hs.1, Or.inl hs.2⟩)
  · exact (put_safe h hx _).mono (fun _ hs => ⟨hs.1, Or.inl hs.2⟩)
  · trivial

/-- one macro step: safe, moves `x` by one, keeps the lines; the counter drops by 1 or 0 -/
theorem exprStep_safe {w h0 : Nat} (inp : Input) (op : Nat) (fom : UInt8) {s : St}
    (h : Inv w h0 s) (hx : s.x < w) (hc0 : 0 < s.count) (hc : s.count + 1 < 2 ^ 32) :
    Safe (exprStep inp op fom s) (fun s' => Inv w h0 s' ∧ SameLines s s' ∧ s'.x = s.x + 1 ∧
      s'.count ≤ s.count ∧ s.count ≤ s'.count + 1) := by
  unfold exprStep
  refine (expr_safe inp op fom h hx hc).bind ?_
  intro s1 ⟨g, c⟩
  have hne : ¬ s1.count = 0 := by rcases c with c | c <;> omega
  simp only [hne, if_false]
  have hx1 : s1.x = s.x := g.1
  refine ⟨?_, ?_, ?_, ?_, ?_⟩
  · refine (h.of_geo g).move ⟨rfl, rfl, rfl, rfl, rfl, Nat.le_refl _⟩ (by simp; omega) ?_
    intro _; rw [g.2.2.1]; exact h.xlt hx
  · exact ⟨g.2.1, g.2.2.1, g.2.2.2.1, g.2.2.2.2.1, g.2.2.2.2.2.1, g.2.2.2.2.2.2⟩
  · simp [hx1]
  · simp only; rcases c with c | c <;> omega
  · simp only; rcases c with c | c <;> omega

theorem times_safe {w h0 : Nat} (inp : Input) (op : Nat) (fom : UInt8) (n : Nat) {s : St}
    (h : Inv w h0 s) (hx : s.x + n ≤ w) (hc0 : n ≤ s.count) (hc : s.count + 1 < 2 ^ 32) :
    Safe (times n (exprStep inp op fom) s) (fun s' => Inv w h0 s' ∧ SameLines s s' ∧ s'.x = s.x + n ∧
      s'.count ≤ s.count) := by
  induction n generalizing s with
  | zero => exact ⟨h, SameLines.refl s, rfl, Nat.le_refl _⟩
  | succ n ih =>
    unfold times
    refine (exprStep_safe inp op fom h (by omega) (by omega) hc).bind ?_
    intro s1 ⟨h1, l1, x1, c1, c2⟩
    refine (ih h1 (by omega) (by omega) (by omega)).mono ?_
    intro s2 ⟨h2, l2, x2, c3⟩
    exact ⟨h2, l1.trans l2, by omega, by omega⟩

theorem loop8_safe {w h0 : Nat} (inp : Input) (op : Nat) (fom : UInt8) (f : Nat) {s : St} (h : Inv w h0 s)
    (hf : w - s.x < f) (hc : s.count + 1 < 2 ^ 32) :
    Safe (loop8 inp op fom w f s) (fun s' => Inv w h0 s' ∧ SameLines s s' ∧ s.x ≤ s'.x ∧ s'.count ≤ s.count ∧
      (s'.x = s.x → s'.count = s.count)) := by
  induction f generalizing s with
  | zero => omega
  | succ f ih =>
    unfold loop8
    split
    · rename_i hcond
      refine (times_safe inp op fom 8 h (by omega) hcond.1 hc).bind ?_
      intro s1 ⟨h1, l1, x1, c1⟩
      exact (ih h1 (by omega) (by omega)).mono
        (fun s2 ⟨h2, l2, x2, c2, _⟩ => ⟨h2, l1.trans l2, by omega, by omega, fun e => by omega⟩)
    · exact ⟨h, SameLines.refl s, Nat.le_refl _, Nat.le_refl _, fun _ => rfl⟩

theorem loop1_safe {w h0 : Nat} (inp : Input) (op : Nat) (fom : UInt8) (f : Nat) {s : St} (h : Inv w h0 s)
    (hf : w - s.x < f) (hc : s.count + 1 < 2 ^ 32) :
    Safe (loop1 inp op fom w f s) (fun s' => Inv w h0 s' ∧ SameLines s s' ∧ s.x ≤ s'.x ∧ s'.count ≤ s.count ∧
      (0 < s.count → s.x < w → s.x < s'.x)) := by
  induction f generalizing s with
  | zero => omega
  | succ f ih =>
    unfold loop1
    split
    · rename_i hcond
      refine (exprStep_safe inp op fom h hcond.2 hcond.1 hc).bind ?_
      intro s1 ⟨h1, l1, x1, c1, _⟩
      exact (ih h1 (by omega) (by omega)).mono
        (fun s2 ⟨h2, l2, x2, c2, _⟩ => ⟨h2, l1.trans l2, by omega, by omega, fun _ _ => by omega⟩)
    · rename_i hcond
      exact ⟨h, SameLines.refl s, Nat.le_refl _, Nat.le_refl _, fun a b => absurd ⟨a, b⟩ hcond⟩

/-- the whole `repeat!` macro -/
theorem repeatM_safe {w h0 : Nat} (inp : Input) (op : Nat) (fom : UInt8) {s : St} (h : Inv w h0 s)
    (hc : s.count + 1 < 2 ^ 32) :
    Safe (repeatM inp op fom w s) (fun s' => Inv w h0 s' ∧ SameLines s s' ∧ s.x ≤ s'.x ∧ s'.count ≤ s.count ∧
      (0 < s.count → s.x < w → s.x < s'.x)) := by
  unfold repeatM
  have hx := h.xle
  refine (loop8_safe inp op fom (w + 1) h (by omega) hc).bind ?_
  intro s1 ⟨h1, l1, x1, c1, e1⟩
  have hx1 := h1.xle
  refine (loop1_safe inp op fom (w + 1) h1 (by omega) (by omega)).mono ?_
  intro s2 ⟨h2, l2, x2, c2, p2⟩
  refine ⟨h2, l1.trans l2, by omega, by omega, ?_⟩
  intro hc0 hxw
  -- either the 8-fold loop already advanced, or the tail loop does
  by_cases hadv : s.x < s1.x
  · omega
  · have hx1e : s1.x = s.x := by omega
    -- loop8 made no step, so the counter is unchanged … not needed: count may only have
    -- dropped if steps were made, which advances x
    have hc1 : 0 < s1.count := by rw [e1 hx1e]; exact hc0
    have := p2 hc1 (by omega); omega

theorem repeatM_nostep (inp : Input) (op : Nat) (fom : UInt8) {w : Nat} {s : St} (hx : w ≤ s.x) :
    repeatM inp op fom w s = .ok s := by
  have h8 : ¬ (s.count ≥ 8 ∧ s.x + 8 < w) := by omega
  have h1 : ¬ (s.count > 0 ∧ s.x < w) := by omega
  simp [repeatM, loop8, loop1, h8, h1]

/-- termination measure of the pixel loop -/
def mu (w : Nat) (s : St) : Nat := s.height * (w + 1) + (w - s.x)

theorem newline_safe {w h0 : Nat} {s : St} (h : Inv w h0 s) :
    Safe (newline w s) (fun s' => Inv w h0 s' ∧ s'.insertmix = s.insertmix ∧ s'.count = s.count ∧
      s'.pos = s.pos ∧ (0 < w → s'.x < w) ∧ mu w s' ≤ mu w s ∧ (w ≤ s.x → mu w s' < mu w s) ∧
      (s.x < w → s' = s) ∧ s'.out.size = s.out.size) := by
  unfold newline
  split
  · split
    · trivial
    · rename_i hxw hh
      have hhle := h.hle
      have hxe : s.x = w := Nat.le_antisymm h.xle hxw
      refine ⟨⟨h.size, by simp; omega, by simp, ?_, ?_, ?_, by simp⟩, rfl, rfl, rfl, by simp, ?_, ?_, ?_, rfl⟩
      · simp
      · intro l hl
        simp at hl
        exact ⟨hl.symm, by simp; omega⟩
      · intro e he
        simp at he
        obtain ⟨rfl, hlt⟩ := h.lineSome e he
        constructor
        · simp; congr 1; omega
        · simp; omega
      · simp only [mu, hxe, Nat.sub_zero, Nat.sub_self]
        have : (s.height - 1) * (w + 1) + (w + 1) = s.height * (w + 1) := by
          rw [← Nat.succ_mul]; congr 1; omega
        omega
      · intro _
        simp only [mu, hxe, Nat.sub_zero, Nat.sub_self]
        have : (s.height - 1) * (w + 1) + (w + 1) = s.height * (w + 1) := by
          rw [← Nat.succ_mul]; congr 1; omega
        omega
      · intro hlt; omega
  · rename_i hxw
    exact ⟨h, rfl, rfl, rfl, fun _ => by omega, Nat.le_refl _, fun hh => absurd hh hxw, fun _ => rfl, rfl⟩

/-- one iteration of `while count > 0` -/
theorem body_safe {w h0 : Nat} (inp : Input) (op : Nat) (fom : UInt8) {s : St}
    (h : Inv w h0 s) (hw : w = 0 → s.insertmix = false) (hc0 : 0 < s.count) (hc : s.count + 1 < 2 ^ 32) :
    Safe (body inp op fom w s) (fun s' => Inv w h0 s' ∧ (w = 0 → s'.insertmix = false) ∧
      s'.count ≤ s.count ∧ s.pos ≤ s'.pos ∧ mu w s' < mu w s ∧ (w = 0 → s'.count = s.count) ∧
      s'.out.size = s.out.size) := by
  unfold body
  refine (newline_safe h).bind ?_
  intro s1 ⟨h1, i1, c1, p1, x1, m1, m1', e1, o1⟩
  split
  · trivial
  · split
    · rename_i hcond
      have hwpos : 0 < w := by
        rcases Nat.eq_zero_or_pos w with hz | hp
        · have := hw hz; rw [← i1, hcond.2] at this; cases this
        · exact hp
      refine (putAbove_safe h1 (x1 hwpos) _ _).bind ?_
      intro s2 ⟨g2, c2⟩
      have hx2 : s2.x < w := by rw [g2.1]; exact x1 hwpos
      have h2 : Inv w h0 { s2 with insertmix := false, count := s2.count - 1, x := s2.x + 1 } := by
        refine (h1.of_geo g2).move4 rfl rfl rfl rfl ?_ ?_
        · simp; omega
        · intro _; rw [g2.2.2.1]; exact h1.xlt (x1 hwpos)
      refine (repeatM_safe inp op fom h2 (by simp; omega)).mono ?_
      intro s3 ⟨h3, l3, x3, c3, _⟩
      refine ⟨h3, fun hz => by omega, ?_, ?_, ?_, fun hz => by omega, ?_⟩
      rotate_right
      · have a := l3.2.2.2.1; simp only at a; rw [a, g2.2.2.2.2.1, o1]
      · simp at c3; omega
      · have := l3.2.2.2.2.2; simp at this; have := g2.2.2.2.2.2.2; omega
      · -- x advanced by at least one from s1 (same height)
        have hh3 : s3.height = s1.height := by rw [l3.1]; simp [g2.2.1]
        have hx3 : s1.x + 1 ≤ s3.x := by simp at x3; rw [g2.1] at x3; exact x3
        have hx3' := h3.xle
        have hx1' := x1 hwpos
        have : mu w s3 < mu w s1 := by simp only [mu, hh3]; omega
        omega
    · rename_i hcond
      by_cases hz : w = 0
      · -- width 0: the macro cannot run, the line counter goes down
        subst hz
        have hns : repeatM inp op fom 0 s1 = .ok s1 := repeatM_nostep inp op fom (Nat.zero_le _)
        rw [hns]
        exact ⟨h1, fun _ => by rw [i1]; exact hw rfl, by omega, by omega, m1' (Nat.zero_le _), fun _ => c1, o1⟩
      · refine (repeatM_safe inp op fom h1 (by omega)).mono ?_
        intro s3 ⟨h3, l3, x3, c3, p3⟩
        refine ⟨h3, fun hz' => absurd hz' hz, by omega, by have := l3.2.2.2.2.2; omega, ?_, fun hz' => absurd hz' hz,
          by rw [l3.2.2.2.1, o1]⟩
        have hh3 : s3.height = s1.height := l3.1
        have hx3' := h3.xle
        by_cases hxw : w ≤ s.x
        · have := m1' hxw
          have : mu w s3 ≤ mu w s1 := by simp only [mu, hh3]; omega
          omega
        · have hs1 : s1 = s := e1 (by omega)
          have hadv := p3 (by rw [c1]; exact hc0) (by rw [hs1]; omega)
          have : mu w s3 < mu w s1 := by simp only [mu, hh3]; omega
          omega

/-- the whole pixel loop of one order.  With width 0 an order that draws anything never
    completes (it runs out of lines and errors), so a completed order left the state as
    the header set it. -/
theorem pixels_safe {w h0 : Nat} (inp : Input) (op : Nat) (fom : UInt8) (fuel : Nat) {s : St}
    (h : Inv w h0 s) (hw : w = 0 → s.insertmix = false) (hc : s.count + 1 < 2 ^ 32) (hf : mu w s < fuel) :
    Safe (pixels inp op fom w fuel s) (fun s' => Inv w h0 s' ∧ (w = 0 → s'.insertmix = false) ∧
      s.pos ≤ s'.pos ∧ (w = 0 → s'.prev = s.prev) ∧ s'.out.size = s.out.size) := by
  induction fuel generalizing s with
  | zero => omega
  | succ f ih =>
    unfold pixels
    split
    · rename_i hc0
      refine (body_safe inp op fom h hw hc0 hc).bind ?_
      intro s1 ⟨h1, hw1, c1, p1, m1, cz, o1⟩
      by_cases hz : w = 0
      · -- never completes: the counter stays positive, the measure runs out
        have hne : ∀ (g : Nat) (t : St), Inv w h0 t → t.insertmix = false → 0 < t.count →
            t.count + 1 < 2 ^ 32 → mu w t < g →
            Safe (pixels inp op fom w g t) (fun _ => False) := by
          intro g
          induction g with
          | zero => intro t _ _ _ _ hm; omega
          | succ g ihg =>
            intro t ht hit hct hct2 hm
            unfold pixels
            simp only [hct, if_true]
            refine (body_safe inp op fom ht (fun _ => hit) hct hct2).bind ?_
            intro t1 ⟨ht1, hwt1, ct1, _, mt1, czt, _⟩
            exact ihg t1 ht1 (hwt1 hz) (by rw [czt hz]; exact hct) (by omega) (by omega)
        exact (hne f s1 h1 (hw1 hz) (by rw [cz hz]; exact hc0) (by omega) (by omega)).mono
          (fun _ hf => hf.elim)
      · exact (ih h1 hw1 (by omega) (by omega)).mono
          (fun s2 ⟨h2, hw2, p2, _, o2⟩ => ⟨h2, hw2, by omega, fun hz' => absurd hz' hz, by rw [o2, o1]⟩)
    · exact ⟨h, hw, Nat.le_refl _, fun _ => rfl, rfl⟩

/-- geometry untouched (the header only reads input and sets colours / counters / flags) -/
def SameFrame (s s' : St) : Prop :=
  s'.x = s.x ∧ s'.height = s.height ∧ s'.line = s.line ∧ s'.prev = s.prev ∧ s'.out.size = s.out.size

theorem SameFrame.inv {w h0 : Nat} {s s' : St} (h : Inv w h0 s) (g : SameFrame s s') : Inv w h0 s' := by
  obtain ⟨g1, g2, g3, g4, g5⟩ := g
  exact ⟨by rw [g5]; exact h.size, by rw [g2]; exact h.hle, by rw [g1]; exact h.xle,
    by rw [g3, g4]; exact h.lineNone, by rw [g3, g2]; exact h.lineSome,
    by rw [g4, g2]; exact h.prevSome, by rw [g1, g3]; exact h.xlt⟩

/-- what a header stage may do: geometry and insert-mix flag untouched, position not back -/
def Read (s s' : St) : Prop := SameGeo s s'

theorem geo_of_read {s s' : St} {v : UInt16} (h : SameGeo s s') : SameGeo s s' := h

theorem headerFirst_safe (inp : Input) (c : Nat) (hc : c < 256) (s : St) :
    Safe (headerFirst inp c s) (fun r => SameGeo s r.2.2.2 ∧ r.2.1 ≤ 65535 ∧ r.2.2.1 ≤ 32) := by
  unfold headerFirst
  simp only
  split
  · refine ⟨SameGeo.refl s, ?_, by simp⟩
    have : c &&& 0xf ≤ 0xf := Nat.and_le_right
    simp only; omega
  · split
    · split
      · refine (readU16_safe inp s).bind ?_
        intro vs ⟨g, _, _, _⟩
        refine ⟨g, ?_, by simp⟩
        have := vs.1.toNat_lt
        simp only; omega
      · split
        · exact ⟨SameGeo.refl s, by simp, by simp⟩
        · exact ⟨SameGeo.refl s, by simp, by simp⟩
    · refine ⟨SameGeo.refl s, ?_, by simp⟩
      have : c &&& 0x1f ≤ 0x1f := Nat.and_le_right
      simp only; omega

theorem headerCount_safe (inp : Input) (op count offset : Nat) (s : St) (hcnt : count ≤ 65535)
    (hoff : offset ≤ 32) :
    Safe (headerCount inp op count offset s) (fun r => SameGeo s r.2 ∧ r.1 ≤ 8 * 65535) := by
  unfold headerCount
  split
  · simp only
    split
    · refine (readU8_safe inp s).bind ?_
      intro bs ⟨g, _, _, _⟩
      refine ⟨g, ?_⟩
      have := bs.1.toNat_lt
      simp only
      split <;> omega
    · split
      · refine ⟨SameGeo.refl s, ?_⟩
        simp only [Nat.shiftLeft_eq]; omega
      · exact ⟨SameGeo.refl s, by simp only; omega⟩
  · exact ⟨SameGeo.refl s, by simp only; omega⟩

theorem headerSecond_safe (inp : Input) (w op : Nat) (s : St) :
    Safe (headerSecond inp w op s) (fun r =>
      SameFrame s r.2.2 ∧ s.pos ≤ r.2.2.pos ∧
      (r.2.2.insertmix = true → s.insertmix = true ∨ ¬ (s.x = w ∧ s.prev = none))) := by
  unfold headerSecond
  split
  · by_cases hcond : s.lastop = 0 ∧ ¬ (s.x = w ∧ s.prev = none)
    · rw [if_pos hcond]
      exact ⟨⟨rfl, rfl, rfl, rfl, rfl⟩, Nat.le_refl _, fun _ => Or.inr hcond.2⟩
    · rw [if_neg hcond]
      exact ⟨⟨rfl, rfl, rfl, rfl, rfl⟩, Nat.le_refl _, fun hh => Or.inl hh⟩
  · split
    · refine (readU16_safe inp s).bind ?_
      intro a ⟨g1, _, _, _⟩
      refine (readU16_safe inp a.2).bind ?_
      intro b ⟨g2, _, _, _⟩
      have g := g1.trans g2
      exact ⟨⟨g.1, g.2.1, g.2.2.1, g.2.2.2.1, g.2.2.2.2.1⟩, g.2.2.2.2.2.2, fun hh => Or.inl (by
        have := g.2.2.2.2.2.1; simp only at hh; rw [← this]; exact hh)⟩
    · split
      · refine (readU16_safe inp s).bind ?_
        intro b ⟨g, _, _, _⟩
        exact ⟨⟨g.1, g.2.1, g.2.2.1, g.2.2.2.1, g.2.2.2.2.1⟩, g.2.2.2.2.2.2, fun hh => Or.inl (by
          have := g.2.2.2.2.2.1; simp only at hh; rw [← this]; exact hh)⟩
      · split
        · refine (readU16_safe inp s).bind ?_
          intro b ⟨g, _, _, _⟩
          exact ⟨⟨g.1, g.2.1, g.2.2.1, g.2.2.2.1, g.2.2.2.2.1⟩, g.2.2.2.2.2.2, fun hh => Or.inl (by
            have := g.2.2.2.2.2.1; simp only at hh; rw [← this]; exact hh)⟩
        · split
          · exact ⟨⟨rfl, rfl, rfl, rfl, rfl⟩, Nat.le_refl _, fun hh => Or.inl hh⟩
          · split
            · exact ⟨⟨rfl, rfl, rfl, rfl, rfl⟩, Nat.le_refl _, fun hh => Or.inl hh⟩
            · exact ⟨⟨rfl, rfl, rfl, rfl, rfl⟩, Nat.le_refl _, fun hh => Or.inl hh⟩

theorem header_safe (inp : Input) (w : Nat) (s : St) :
    Safe (header inp w s) (fun r =>
      SameFrame s r.2.2 ∧ s.pos < r.2.2.pos ∧ r.2.2.count + 1 < 2 ^ 32 ∧
      (r.2.2.insertmix = true → s.insertmix = true ∨ ¬ (s.x = w ∧ s.prev = none))) := by
  unfold header
  refine (readU8_safe inp s).bind ?_
  intro cs ⟨g0, _, p0, _⟩
  refine (headerFirst_safe inp cs.1.toNat cs.1.toNat_lt cs.2).bind ?_
  intro r1 ⟨g1, c1, o1⟩
  obtain ⟨op, count, offset, s1⟩ := r1
  simp only at g1 c1 o1
  refine (headerCount_safe inp op count offset s1 c1 o1).bind ?_
  intro r2 ⟨g2, c2⟩
  obtain ⟨count2, s2⟩ := r2
  simp only at g2 c2
  refine (headerSecond_safe inp w op s2).bind ?_
  intro r3 ⟨f3, p3, i3⟩
  obtain ⟨op3, fom3, s3⟩ := r3
  have g02 := (g0.trans g1).trans g2
  simp only at f3 p3 i3
  show SameFrame s _ ∧ s.pos < s3.pos ∧ count2 + 1 < 2 ^ 32 ∧
      (s3.insertmix = true → s.insertmix = true ∨ ¬ (s.x = w ∧ s.prev = none))
  refine ⟨⟨?_, ?_, ?_, ?_, ?_⟩, ?_, ?_, ?_⟩
  · show s3.x = s.x; rw [f3.1, g02.1]
  · show s3.height = s.height; rw [f3.2.1, g02.2.1]
  · show s3.line = s.line; rw [f3.2.2.1, g02.2.2.1]
  · show s3.prev = s.prev; rw [f3.2.2.2.1, g02.2.2.2.1]
  · show s3.out.size = s.out.size; rw [f3.2.2.2.2, g02.2.2.2.2.1]
  · have a1 := g1.2.2.2.2.2.2; have a2 := g2.2.2.2.2.2.2; omega
  · omega
  · intro hh
    rcases i3 hh with h1 | h1
    · left; rw [← g02.2.2.2.2.2.1]; exact h1
    · right; rw [← g02.1, ← g02.2.2.2.1]; exact h1

/-- invariant at order boundaries -/
def Boundary (w h0 : Nat) (s : St) : Prop :=
  Inv w h0 s ∧ (w = 0 → s.prev = none ∧ s.insertmix = false)

theorem order_safe {w h0 : Nat} (inp : Input) {s : St} (hb : Boundary w h0 s) :
    Safe (order inp w h0 s) (fun s' => Boundary w h0 s' ∧ s.pos < s'.pos ∧ s'.out.size = s.out.size) := by
  unfold order
  obtain ⟨h, hw⟩ := hb
  refine (header_safe inp w s).bind ?_
  intro r ⟨f, p, c, i⟩
  obtain ⟨op, fom, s1⟩ := r
  simp only at f p c i
  have h1 : Inv w h0 s1 := f.inv h
  have hw1 : w = 0 → s1.insertmix = false := by
    intro hz
    obtain ⟨hp, him⟩ := hw hz
    cases hi : s1.insertmix with
    | false => rfl
    | true =>
      rcases i hi with a | a
      · rw [him] at a; cases a
      · exfalso; apply a
        have := h.xle
        exact ⟨by omega, hp⟩
  have hmu : mu w s1 < (h0 + 1) * (w + 1) + 1 := by
    have a := h1.hle
    have b : s1.height * (w + 1) ≤ h0 * (w + 1) := Nat.mul_le_mul_right _ a
    simp only [mu, Nat.add_mul]; omega
  refine (pixels_safe inp op fom _ h1 hw1 c hmu).mono ?_
  intro s2 ⟨h2, hw2, p2, pz, o2⟩
  refine ⟨⟨h2, fun hz => ⟨?_, hw2 hz⟩⟩, by omega, by rw [o2, f.2.2.2.2]⟩
  rw [pz hz, f.2.2.2.1]; exact (hw hz).1

theorem orders_safe {w h0 : Nat} (inp : Input) (fuel : Nat) {s : St} (hb : Boundary w h0 s)
    (hf : inp.size - s.pos < fuel) :
    Safe (orders inp w h0 fuel s) (fun s' => s'.out.size = s.out.size) := by
  induction fuel generalizing s with
  | zero => omega
  | succ f ih =>
    unfold orders
    split
    · refine (order_safe inp hb).bind ?_
      intro s1 ⟨hb1, p1, o1⟩
      refine (ih hb1 (by omega)).mono ?_
      intro s2 hs2
      rw [hs2, o1]
    · rfl

end Rdp.Rle16
