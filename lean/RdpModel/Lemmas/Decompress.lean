import RdpModel.Codec.Decompress
import RdpModel.Lemmas.Rle16
/-
  Index safety of the planar decoder and of `BitmapEvent::decompress` as a whole.
-/
namespace Rdp.Codec
open Rdp
open Rdp.Rle16 (Safe)

theorem pput_safe (s : PSt) (off i : Nat) (v : UInt8) (h : off + i < s.out.size) :
    Safe (pput s off i v) (fun s' => s'.out.size = s.out.size ∧ s'.pos = s.pos) := by
  unfold pput
  simp only [h, if_true]
  exact ⟨by simp, rfl⟩

theorem pget_safe (s : PSt) (off i : Nat) (h : off + i < s.out.size) :
    Safe (pget s off i) (fun _ => True) := by
  unfold pget
  simp only [h, dite_true]
  trivial

theorem rdU8_safe (inp : Input) (s : PSt) :
    Safe (rdU8 inp s) (fun r => r.2.out.size = s.out.size ∧ r.2.pos = s.pos + 1 ∧ s.pos < inp.size) := by
  unfold rdU8; split
  · rename_i h; exact ⟨rfl, rfl, h⟩
  · trivial

/-- row geometry: `base` = start of the current row, `lastLine` = start of the row decoded
    before it (one row further), both inside a `w × h` plane of stride 4 -/
structure Row (w h off base lastLine size : Nat) (first : Bool) : Prop where
  offle : off ≤ 3
  basele : base + w * 4 ≤ w * h * 4
  sz : w * h * 4 ≤ size
  last : first = false → lastLine + w * 4 ≤ w * h * 4

theorem colRun_safe (inp : Input) {w h off base lastLine : Nat} {first : Bool} (n : Nat) (s : PSt) (indexw : Nat)
    (color : UInt8) (hr : Row w h off base lastLine s.out.size first) (hn : indexw + n ≤ w) :
    Safe (colRun inp off lastLine first n s (base + indexw * 4) indexw color)
      (fun r => r.1.out.size = s.out.size ∧ s.pos ≤ r.1.pos ∧ r.2.1 = base + (indexw + n) * 4 ∧ r.2.2.1 = indexw + n) := by
  induction n generalizing s indexw color with
  | zero => exact ⟨rfl, Nat.le_refl _, by simp, by simp⟩
  | succ n ih =>
    unfold colRun
    refine (rdU8_safe inp s).bind ?_
    intro r ⟨o1, p1, _⟩
    obtain ⟨x, s1⟩ := r
    simp only at o1 p1 ⊢
    have hb : off + (base + indexw * 4) < s1.out.size := by
      have := hr.offle; have := hr.basele; have := hr.sz; rw [o1]; omega
    split
    · refine (pput_safe s1 off _ x hb).bind ?_
      intro s2 ⟨o2, p2⟩
      have hr2 : Row w h off base lastLine s2.out.size first := by rw [o2, o1]; exact hr
      have e : base + indexw * 4 + 4 = base + (indexw + 1) * 4 := by omega
      rw [e]
      refine (ih s2 (indexw + 1) x hr2 (by omega)).mono ?_
      intro r ⟨a, b, c, d⟩
      exact ⟨by rw [a, o2, o1], by omega, by rw [c]; congr 1; omega, by omega⟩
    · rename_i hf
      have hfirst : first = false := by simpa using hf
      have hg : off + (lastLine + indexw * 4) < s1.out.size := by
        have := hr.offle; have := hr.last hfirst; have := hr.sz; rw [o1]; omega
      refine (pget_safe s1 off _ hg).bind ?_
      intro a _
      refine (pput_safe s1 off _ _ hb).bind ?_
      intro s2 ⟨o2, p2⟩
      have hr2 : Row w h off base lastLine s2.out.size first := by rw [o2, o1]; exact hr
      have e : base + indexw * 4 + 4 = base + (indexw + 1) * 4 := by omega
      rw [e]
      refine (ih s2 (indexw + 1) _ hr2 (by omega)).mono ?_
      intro r ⟨a, b, c, d⟩
      exact ⟨by rw [a, o2, o1], by omega, by rw [c]; congr 1; omega, by omega⟩

theorem repRun_safe {w h off base lastLine : Nat} {first : Bool} (n : Nat) (s : PSt) (indexw : Nat)
    (color : UInt8) (hr : Row w h off base lastLine s.out.size first) (hn : indexw + n ≤ w) :
    Safe (repRun off lastLine first n s (base + indexw * 4) indexw color)
      (fun r => r.1.out.size = s.out.size ∧ r.1.pos = s.pos ∧ r.2.1 = base + (indexw + n) * 4 ∧ r.2.2 = indexw + n) := by
  induction n generalizing s indexw with
  | zero => exact ⟨rfl, rfl, by simp, by simp⟩
  | succ n ih =>
    unfold repRun
    have hb : off + (base + indexw * 4) < s.out.size := by
      have := hr.offle; have := hr.basele; have := hr.sz; omega
    split
    · refine (pput_safe s off _ color hb).bind ?_
      intro s2 ⟨o2, p2⟩
      have hr2 : Row w h off base lastLine s2.out.size first := by rw [o2]; exact hr
      have e : base + indexw * 4 + 4 = base + (indexw + 1) * 4 := by omega
      rw [e]
      refine (ih s2 (indexw + 1) hr2 (by omega)).mono ?_
      intro r ⟨a, b, c, d⟩
      exact ⟨by rw [a, o2], by rw [b, p2], by rw [c]; congr 1; omega, by omega⟩
    · rename_i hf
      have hfirst : first = false := by simpa using hf
      have hg : off + (lastLine + indexw * 4) < s.out.size := by
        have := hr.offle; have := hr.last hfirst; have := hr.sz; omega
      refine (pget_safe s off _ hg).bind ?_
      intro a _
      refine (pput_safe s off _ _ hb).bind ?_
      intro s2 ⟨o2, p2⟩
      have hr2 : Row w h off base lastLine s2.out.size first := by rw [o2]; exact hr
      have e : base + indexw * 4 + 4 = base + (indexw + 1) * 4 := by omega
      rw [e]
      refine (ih s2 (indexw + 1) hr2 (by omega)).mono ?_
      intro r ⟨a, b, c, d⟩
      exact ⟨by rw [a, o2], by rw [b, p2], by rw [c]; congr 1; omega, by omega⟩

theorem scanline_safe (inp : Input) {w h off base lastLine : Nat} {first : Bool} (fuel : Nat) (s : PSt)
    (indexw : Nat) (color : UInt8) (hr : Row w h off base lastLine s.out.size first) (hx : indexw ≤ w)
    (hf : inp.size - s.pos < fuel) :
    Safe (scanline inp off w lastLine first fuel s (base + indexw * 4) indexw color)
      (fun s' => s'.out.size = s.out.size ∧ s.pos ≤ s'.pos) := by
  induction fuel generalizing s indexw color with
  | zero => omega
  | succ f ih =>
    unfold scanline
    split
    · refine (rdU8_safe inp s).bind ?_
      intro r ⟨o1, p1, hav⟩
      obtain ⟨code, s1⟩ := r
      simp only at o1 p1 ⊢
      generalize hrc : (if (code.toNat &&& 0xf) <<< 4 ||| code.toNat >>> 4 &&& 0xf ≤ 47 ∧
          (code.toNat &&& 0xf) <<< 4 ||| code.toNat >>> 4 &&& 0xf ≥ 16
          then ((code.toNat &&& 0xf) <<< 4 ||| code.toNat >>> 4 &&& 0xf, 0)
          else (code.toNat &&& 0xf, code.toNat >>> 4 &&& 0xf)) = rc
      obtain ⟨replen, collen⟩ := rc
      simp only
      split
      · trivial
      · rename_i hfit
        have hr1 : Row w h off base lastLine s1.out.size first := by rw [o1]; exact hr
        refine (colRun_safe inp collen s1 indexw color hr1 (by omega)).bind ?_
        intro r ⟨a1, b1, c1, d1⟩
        obtain ⟨s2, out2, iw2, col2⟩ := r
        simp only at a1 b1 c1 d1 ⊢
        have hr2 : Row w h off base lastLine s2.out.size first := by rw [a1]; exact hr1
        rw [c1, d1]
        refine (repRun_safe replen s2 (indexw + collen) col2 hr2 (by omega)).bind ?_
        intro r ⟨a2, b2, c2, d2⟩
        obtain ⟨s3, out3, iw3⟩ := r
        simp only at a2 b2 c2 d2 ⊢
        have hr3 : Row w h off base lastLine s3.out.size first := by rw [a2]; exact hr2
        rw [c2, d2]
        refine (ih s3 (indexw + collen + replen) col2 hr3 (by omega) (by omega)).mono ?_
        intro s4 ⟨a4, b4⟩
        exact ⟨by rw [a4, a2, a1, o1], by omega⟩
    · exact ⟨rfl, Nat.le_refl _⟩

theorem planeRows_safe (inp : Input) {w h off : Nat} (hoff : off ≤ 3) (n indexh lastLine : Nat) (s : PSt)
    (hsz : w * h * 4 ≤ s.out.size) (hn : indexh + n = h)
    (hl : indexh ≠ 0 → lastLine = w * h * 4 - indexh * w * 4) (hl0 : indexh = 0 → lastLine = 0) :
    Safe (planeRows inp off w h n indexh lastLine s) (fun s' => s'.out.size = s.out.size) := by
  induction n generalizing indexh lastLine s with
  | zero => rfl
  | succ n ih =>
    unfold planeRows
    have hlt : indexh < h := by omega
    have hmul : (indexh + 1) * w * 4 ≤ h * w * 4 := by
      have := Nat.mul_le_mul_right (w * 4) (show indexh + 1 ≤ h from hlt)
      simpa [Nat.mul_assoc] using this
    have hsub : (indexh + 1) * w * 4 ≤ w * h * 4 := by rw [Nat.mul_comm w h]; exact hmul
    simp only [checkedSub, hsub, if_true]
    -- geometry of this row
    have hrow : Row w h off (w * h * 4 - (indexh + 1) * w * 4) lastLine s.out.size (decide (lastLine = 0)) := by
      refine ⟨hoff, ?_, hsz, ?_⟩
      · have e : (indexh + 1) * w * 4 = indexh * w * 4 + w * 4 := by rw [Nat.add_mul, Nat.add_mul]; simp
        omega
      · intro hf
        have hne : lastLine ≠ 0 := by simpa using hf
        have hi : indexh ≠ 0 := fun h0 => hne (hl0 h0)
        rw [hl hi]
        have h1 : 1 ≤ indexh := Nat.pos_of_ne_zero hi
        have := Nat.mul_le_mul_right (w * 4) h1
        have e2 : indexh * w * 4 = indexh * (w * 4) := Nat.mul_assoc _ _ _
        have e3 : indexh * w * 4 ≤ w * h * 4 := by
          have := Nat.mul_le_mul_right (w * 4) (Nat.le_of_lt hlt)
          rw [Nat.mul_comm w h]; simpa [Nat.mul_assoc] using this
        omega
    have := scanline_safe inp (inp.size + w + 1) s 0 0 hrow (Nat.zero_le _) (by omega)
    simp only [Nat.zero_mul, Nat.add_zero] at this
    refine this.bind ?_
    intro s1 ⟨o1, _⟩
    refine (ih (indexh + 1) _ s1 (by rw [o1]; exact hsz) (by omega) (fun _ => rfl) (fun h0 => by omega)).mono ?_
    intro s2 o2
    rw [o2, o1]

theorem processPlane_safe (inp : Input) {w h off : Nat} (hoff : off ≤ 3) (s : PSt) (hsz : w * h * 4 ≤ s.out.size) :
    Safe (processPlane inp off w h s) (fun s' => s'.out.size = s.out.size) :=
  planeRows_safe inp hoff h 0 0 s hsz (by omega) (fun h => absurd rfl h) (fun _ => rfl)

theorem rle32_safe (inp : Input) (w h : Nat) (out : Array UInt8) (hsz : out.size = w * h * 4) :
    Safe (rle32 inp w h out) (fun o => o.size = out.size) := by
  unfold rle32
  split
  · rfl
  · rename_i hwh
    refine (rdU8_safe inp ⟨0, out⟩).bind ?_
    intro r ⟨o1, _, _⟩
    obtain ⟨hdr, s⟩ := r
    simp only at o1 ⊢
    split
    · trivial
    · have hpos : 0 < w * h := by
        rcases Nat.eq_zero_or_pos w with a | a
        · exact absurd (Or.inl a) hwh
        · rcases Nat.eq_zero_or_pos h with b | b
          · exact absurd (Or.inr b) hwh
          · exact Nat.mul_pos a b
      have hs3 : ¬ s.out.size < 3 := by rw [o1, hsz]; omega
      simp only [hs3, if_false]
      refine (processPlane_safe inp (by decide) s (by rw [o1, hsz]; exact Nat.le_refl _)).bind ?_
      intro s1 a1
      refine (processPlane_safe inp (by decide) s1 (by rw [a1, o1, hsz]; exact Nat.le_refl _)).bind ?_
      intro s2 a2
      refine (processPlane_safe inp (by decide) s2 (by rw [a2, a1, o1, hsz]; exact Nat.le_refl _)).bind ?_
      intro s3 a3
      refine (processPlane_safe inp (by decide) s3 (by rw [a3, a2, a1, o1, hsz]; exact Nat.le_refl _)).bind ?_
      intro s4 a4
      show s4.out.size = out.size
      rw [a4, a3, a2, a1, o1]

theorem widen_length (v : UInt16) : (widen v).length = 4 := rfl

theorem widenInto_size (acc : Array UInt8) (v : UInt16) : (widenInto acc v).size = acc.size + 4 := by
  simp [widenInto, widen]

theorem foldl_widenInto_size (l : List UInt16) (acc : Array UInt8) :
    (l.foldl widenInto acc).size = acc.size + 4 * l.length := by
  induction l generalizing acc with
  | nil => simp
  | cons v vs ih => simp only [List.foldl_cons, ih, widenInto_size, List.length_cons]; omega

theorem rgb565_safe (buf : Array UInt16) (w h : Nat) (hsz : w * h ≤ buf.size) :
    Safe (rgb565torgb32 buf w h) (fun o => o.length = w * h * 4) := by
  unfold rgb565torgb32
  simp only [hsz, if_true]
  show (Array.foldl widenInto (Array.mkEmpty (w * h * 4)) (buf.extract 0 (w * h))).toList.length = w * h * 4
  rw [Array.length_toList, ← Array.foldl_toList, foldl_widenInto_size]
  simp; omega

end Rdp.Codec
