import RdpModel.Lemmas.Input
import RdpModel.Spec.Strict
import RdpModel.Wire.Emit
/-
  The Confirm Active PDU as the client writes it (`write_confirm_active_pdu`, model:
  Wire/Global.lean `confirmActiveBytes`), byte for byte, for every configuration.
-/
namespace Rdp.Global
open Rdp Rdp.Schema
open Rdp.Emit (le16 le32)

theorem toVec_general : toVec (generalCaps 0x0415) =
    .ok (le16 1 ++ le16 3 ++ le16 0x0200 ++ le16 0 ++ le16 0 ++ le16 0x0415 ++ le16 0 ++ le16 0 ++ le16 0 ++ [0, 0]) := by
  simp [toVec, generalCaps, write, writeFields, options, u16le, addSkip, Outcome.bind, le16]

theorem toVec_bitmap (w h : Nat) : toVec (bitmapCaps 0x18 w h) =
    .ok (le16 0x18 ++ le16 1 ++ le16 1 ++ le16 1 ++ le16 w ++ le16 h ++ le16 0 ++ le16 0 ++ le16 1 ++ [0, 0] ++ le16 1 ++ le16 0) := by
  simp [toVec, bitmapCaps, write, writeFields, options, u16le, addSkip, Outcome.bind, le16]

theorem toVec_input (layout : Nat) : toVec (inputCaps 0x0015 layout) =
    .ok (le16 0x15 ++ le16 0 ++ le32 layout ++ le32 4 ++ le32 0 ++ le32 12 ++ zeros 64) := by
  simp [toVec, inputCaps, write, writeFields, options, u16le, u32le, blob, addSkip, Outcome.bind, le16, le32]


/-- length of what a message writes (none when writing fails) -/
def lenOf (o : Outcome Bytes) : Option Nat := match o with | .ok b => some b.length | _ => none

theorem lenOf_ok {o : Outcome Bytes} {n : Nat} (h : lenOf o = some n) : ∃ b, o = .ok b ∧ b.length = n := by
  cases o with
  | ok b => simp only [lenOf, Option.some.injEq] at h; exact ⟨b, rfl, h⟩
  | err e => cases h
  | panic e => cases h

theorem len_order : lenOf (toVec (orderCaps 0x000A)) = some 84 := by decide
theorem len_bitmapCache : lenOf (toVec bitmapCacheCaps) = some 36 := by decide
theorem len_pointer : lenOf (toVec pointerCaps) = some 4 := by decide
theorem len_sound : lenOf (toVec soundCaps) = some 4 := by decide
theorem len_brush : lenOf (toVec brushCaps) = some 4 := by decide
theorem len_glyph : lenOf (toVec glyphCaps) = some 48 := by decide
theorem len_offscreen : lenOf (toVec offscreenCaps) = some 8 := by decide
theorem len_vc : lenOf (toVec virtualChannelCaps) = some 8 := by decide
theorem len_multifrag : lenOf (toVec multifragCaps) = some 4 := by decide

theorem toVec_capabilitySet (ty : Nat) (b : Bytes) (h : b.length + 4 < 65536) :
    toVec (capabilitySet ty b) = .ok (le16 ty ++ le16 (b.length + 4) ++ b) := by
  have hm : (b.length + 4) % 65536 = b.length + 4 := Nat.mod_eq_of_lt h
  simp [toVec, capabilitySet, write, writeFields, options, evalOpt, intVal, u16le, blob, addSkip, Outcome.bind, hm, le16]


def genBytes : Bytes := le16 1 ++ le16 3 ++ le16 0x0200 ++ le16 0 ++ le16 0 ++ le16 0x0415 ++ le16 0 ++ le16 0 ++ le16 0 ++ [0, 0]
def bmpBytes (w h : Nat) : Bytes :=
  le16 0x18 ++ le16 1 ++ le16 1 ++ le16 1 ++ le16 w ++ le16 h ++ le16 0 ++ le16 0 ++ le16 1 ++ [0, 0] ++ le16 1 ++ le16 0
def inpBytes (layout : Nat) : Bytes := le16 0x15 ++ le16 0 ++ le32 layout ++ le32 4 ++ le32 0 ++ le32 12 ++ zeros 64

theorem gle16_length (v : Nat) : (le16 v).length = 2 := by simp [le16, encInt_length]
theorem gle32_length (v : Nat) : (le32 v).length = 4 := by simp [le32, encInt_length]
theorem genBytes_length : genBytes.length = 20 := by simp [genBytes, gle16_length]
theorem bmpBytes_length (w h : Nat) : (bmpBytes w h).length = 24 := by simp [bmpBytes, gle16_length]
theorem inpBytes_length (l : Nat) : (inpBytes l).length = 84 := by simp [inpBytes, gle16_length, gle32_length, zeros]

/-- the twelve capability sets of the client, with the sizes of the nine constant ones -/
theorem clientCapsWire_ok (c : GClient) :
    ∃ b3 b4 b5 b6 b8 b9 b10 b11 b12 : Bytes,
      b3.length = 84 ∧ b4.length = 36 ∧ b5.length = 4 ∧ b6.length = 4 ∧ b8.length = 4 ∧ b9.length = 48 ∧
      b10.length = 8 ∧ b11.length = 8 ∧ b12.length = 4 ∧
      clientCaps c = .ok [capabilitySet 0x0001 genBytes, capabilitySet 0x0002 (bmpBytes c.width c.height),
        capabilitySet 0x0003 b3, capabilitySet 0x0004 b4, capabilitySet 0x0008 b5, capabilitySet 0x000C b6,
        capabilitySet 0x000D (inpBytes c.layout), capabilitySet 0x000F b8, capabilitySet 0x0010 b9,
        capabilitySet 0x0011 b10, capabilitySet 0x0014 b11, capabilitySet 0x001A b12] := by
  obtain ⟨b3, e3, l3⟩ := lenOf_ok len_order
  obtain ⟨b4, e4, l4⟩ := lenOf_ok len_bitmapCache
  obtain ⟨b5, e5, l5⟩ := lenOf_ok len_pointer
  obtain ⟨b6, e6, l6⟩ := lenOf_ok len_sound
  obtain ⟨b8, e8, l8⟩ := lenOf_ok len_brush
  obtain ⟨b9, e9, l9⟩ := lenOf_ok len_glyph
  obtain ⟨b10, e10, l10⟩ := lenOf_ok len_offscreen
  obtain ⟨b11, e11, l11⟩ := lenOf_ok len_vc
  obtain ⟨b12, e12, l12⟩ := lenOf_ok len_multifrag
  refine ⟨b3, b4, b5, b6, b8, b9, b10, b11, b12, l3, l4, l5, l6, l8, l9, l10, l11, l12, ?_⟩
  simp only [clientCaps, capSet, toVec_general, toVec_bitmap, toVec_input, e3, e4, e5, e6, e8, e9, e10, e11, e12,
    Outcome.bind_ok, genBytes, bmpBytes, inpBytes]


theorem write_capabilitySet (ty : Nat) (b : Bytes) (h : b.length + 4 < 65536) :
    write (capabilitySet ty b) = .ok (le16 ty ++ le16 (b.length + 4) ++ b) := by
  have hm : (b.length + 4) % 65536 = b.length + 4 := Nat.mod_eq_of_lt h
  simp [capabilitySet, write, writeFields, options, evalOpt, intVal, u16le, blob, addSkip, Outcome.bind, hm, le16]

theorem length_capabilitySet (ty : Nat) (b : Bytes) : length (capabilitySet ty b) = .ok (b.length + 4) := by
  simp [capabilitySet, length, lengthFields, options, evalOpt, intVal, u16le, blob, addSkip, Outcome.bind]
  omega

/-- one capability set on the wire -/
def capWire (ty : Nat) (b : Bytes) : Bytes := le16 ty ++ le16 (b.length + 4) ++ b


/-- the twelve capability sets on the wire -/
def capsWire (c : GClient) (b3 b4 b5 b6 b8 b9 b10 b11 b12 : Bytes) : Bytes :=
  ([capWire 1 genBytes, capWire 2 (bmpBytes c.width c.height), capWire 3 b3, capWire 4 b4, capWire 8 b5, capWire 0xC b6,
    capWire 0xD (inpBytes c.layout), capWire 0xF b8, capWire 0x10 b9, capWire 0x11 b10, capWire 0x14 b11,
    capWire 0x1A b12] : List Bytes).flatten

def caBody (c : GClient) (b3 b4 b5 b6 b8 b9 b10 b11 b12 : Bytes) : Bytes :=
  le32 (c.shareId.getD 0) ++ le16 0x03EA ++ le16 c.name.length ++ le16 380 ++ c.name ++ le16 12 ++ le16 0 ++
    capsWire c b3 b4 b5 b6 b8 b9 b10 b11 b12

/-- **The Confirm Active PDU, byte for byte**: share control header, share id, originator,
    source descriptor (the client name), 12 capability sets with their lengths -/
theorem confirmActiveBytes_eq (c : GClient) (hn : c.name.length < 60000) :
    ∃ b3 b4 b5 b6 b8 b9 b10 b11 b12 : Bytes,
      b3.length = 84 ∧ b4.length = 36 ∧ b5.length = 4 ∧ b6.length = 4 ∧ b8.length = 4 ∧ b9.length = 48 ∧
      b10.length = 8 ∧ b11.length = 8 ∧ b12.length = 4 ∧
      confirmActiveBytes c = .ok (le16 (c.name.length + 396) ++ le16 0x13 ++ le16 c.userId ++
        caBody c b3 b4 b5 b6 b8 b9 b10 b11 b12) := by
  obtain ⟨b3, b4, b5, b6, b8, b9, b10, b11, b12, l3, l4, l5, l6, l8, l9, l10, l11, l12, hcaps⟩ := clientCapsWire_ok c
  refine ⟨b3, b4, b5, b6, b8, b9, b10, b11, b12, l3, l4, l5, l6, l8, l9, l10, l11, l12, ?_⟩
  have lg := genBytes_length
  have lb := bmpBytes_length c.width c.height
  have li := inpBytes_length c.layout
  unfold confirmActiveBytes
  rw [hcaps]
  simp only [Outcome.bind_ok, length, lengthList, length_capabilitySet, lg, lb, li, l3, l4, l5, l6, l8, l9, l10, l11, l12]
  have hbody : toVec (confirmActive (c.shareId.getD 0) c.name
      [capabilitySet 0x0001 genBytes, capabilitySet 0x0002 (bmpBytes c.width c.height),
        capabilitySet 0x0003 b3, capabilitySet 0x0004 b4, capabilitySet 0x0008 b5, capabilitySet 0x000C b6,
        capabilitySet 0x000D (inpBytes c.layout), capabilitySet 0x000F b8, capabilitySet 0x0010 b9,
        capabilitySet 0x0011 b10, capabilitySet 0x0014 b11, capabilitySet 0x001A b12] 376) =
      .ok (caBody c b3 b4 b5 b6 b8 b9 b10 b11 b12) := by
    have hnm : c.name.length % 65536 = c.name.length := Nat.mod_eq_of_lt (by omega)
    have w1 := write_capabilitySet 0x0001 genBytes (by rw [lg]; decide)
    have w2 := write_capabilitySet 0x0002 (bmpBytes c.width c.height) (by rw [lb]; decide)
    have w3 := write_capabilitySet 0x0003 b3 (by rw [l3]; decide)
    have w4 := write_capabilitySet 0x0004 b4 (by rw [l4]; decide)
    have w5 := write_capabilitySet 0x0008 b5 (by rw [l5]; decide)
    have w6 := write_capabilitySet 0x000C b6 (by rw [l6]; decide)
    have w7 := write_capabilitySet 0x000D (inpBytes c.layout) (by rw [li]; decide)
    have w8 := write_capabilitySet 0x000F b8 (by rw [l8]; decide)
    have w9 := write_capabilitySet 0x0010 b9 (by rw [l9]; decide)
    have w10 := write_capabilitySet 0x0011 b10 (by rw [l10]; decide)
    have w11 := write_capabilitySet 0x0014 b11 (by rw [l11]; decide)
    have w12 := write_capabilitySet 0x001A b12 (by rw [l12]; decide)
    simp [toVec, confirmActive, write, writeFields, writeList, options, evalOpt, intVal, u16le, u32le, blob, addSkip,
      Outcome.bind, hnm, w1, w2, w3, w4, w5, w6, w7, w8, w9, w10, w11, w12, caBody, capsWire, capWire, le16, le32]
  have e376 : 20 + 4 + (24 + 4 + (84 + 4 + (36 + 4 + (4 + 4 + (4 + 4 + (84 + 4 + (4 + 4 + (48 + 4 + (8 + 4 + (8 + 4 + (4 + 4 + 0))))))))))) = 376 := by decide
  rw [e376]
  unfold pduBytes
  rw [hbody]
  simp only [Outcome.bind_ok]
  have hlen : (caBody c b3 b4 b5 b6 b8 b9 b10 b11 b12).length = c.name.length + 390 := by
    simp only [caBody, capsWire, capWire, List.flatten_cons, List.flatten_nil, List.length_append, List.length_nil,
      gle16_length, gle32_length, lg, lb, li, l3, l4, l5, l6, l8, l9, l10, l11, l12]
    omega
  rw [toVec_shareControl _ _ _ (by rw [hlen]; omega), hlen]
  rfl

end Rdp.Global
