import RdpModel.Lemmas.Rle16Pix2
/-
  FG/BG image orders (and the two special orders): the reference decoder's byte-wise
  `fgbgBytes` / `writeFgBg` as a per-pixel function, and the port's mask state machine
  (`maskStep`: `mixmask <<= 1; if mixmask == 0 { next mask byte; mixmask = 1 }`) against it.
-/
namespace Rdp.Rle16
open Rdp Rdp.Spec.Bitmap

/-! ### the reference decoder, one pixel at a time -/

/-- pixel for bit `i` of mask `m` -/
def fgPx (w : Nat) (fl : Bool) (fg m i : Nat) (D : List Pixel) : Pixel :=
  if fl then (if (m >>> i) % 2 = 1 then fg else BLACK)
  else (if (m >>> i) % 2 = 1 then (abovePel D w) ^^^ fg else abovePel D w)

/-- `k` bits of the current mask `m` are used (0 or 8: a new mask is due); `fom ≠ 0`: the
    mask is the fixed `fom` (special orders) and nothing is read -/
def fgbgPix (w : Nat) (fl : Bool) (fg fom : Nat) : Nat → List Pixel → Nat → Nat → Bytes → Option (List Pixel × Bytes)
  | 0, D, _, _, src => some (D, src)
  | n+1, D, k, m, src =>
    if k = 0 ∨ 8 ≤ k then
      if fom ≠ 0 then fgbgPix w fl fg fom n (D ++ [fgPx w fl fg fom 0 D]) 1 fom src
      else match src with
        | [] => none
        | b :: r => fgbgPix w fl fg fom n (D ++ [fgPx w fl fg b.toNat 0 D]) 1 b.toNat r
    else fgbgPix w fl fg fom n (D ++ [fgPx w fl fg m k D]) (k + 1) m src

theorem writeFgBg_succ (D : List Pixel) (w : Nat) (fl : Bool) (m fg j i : Nat) :
    writeFgBg D w fl m fg (j + 1) i = writeFgBg (D ++ [fgPx w fl fg m i D]) w fl m fg j (i + 1) := by
  simp only [writeFgBg, fgPx]

/-- inside one mask -/
theorem fgbgPix_within (w : Nat) (fl : Bool) (fg fom m : Nat) (src : Bytes) (rest : Nat) :
    ∀ (j : Nat) (D : List Pixel) (i : Nat), 1 ≤ i → i + j ≤ 8 →
      fgbgPix w fl fg fom (j + rest) D i m src = fgbgPix w fl fg fom rest (writeFgBg D w fl m fg j i) (i + j) m src := by
  intro j
  induction j with
  | zero => intro D i _ _; simp [writeFgBg]
  | succ j ih =>
    intro D i h1 h2
    have hk : ¬ (i = 0 ∨ 8 ≤ i) := by omega
    rw [show j + 1 + rest = (j + rest) + 1 by omega]
    simp only [fgbgPix, hk, if_false]
    rw [ih _ (i + 1) (by omega) (by omega), writeFgBg_succ]
    congr 1; omega

/-- a whole group: a mask byte is read and `bits` of its bits are used -/
theorem fgbgPix_group (w : Nat) (fl : Bool) (fg : Nat) (b : UInt8) (r : Bytes) (rest bits : Nat) (D : List Pixel)
    (k m : Nat) (hk : k = 0 ∨ 8 ≤ k) (h1 : 1 ≤ bits) (h8 : bits ≤ 8) :
    fgbgPix w fl fg 0 (bits + rest) D k m (b :: r)
      = fgbgPix w fl fg 0 rest (writeFgBg D w fl b.toNat fg bits 0) bits b.toNat r := by
  obtain ⟨j, rfl⟩ : ∃ j, bits = j + 1 := ⟨bits - 1, by omega⟩
  rw [show j + 1 + rest = (j + rest) + 1 by omega]
  simp only [fgbgPix, hk, if_true, ne_eq, not_true_eq_false, if_false]
  rw [fgbgPix_within w fl fg 0 b.toNat r rest j _ 1 (by omega) (by omega), writeFgBg_succ]
  congr 1; omega

theorem fgbgPix_group_fom (w : Nat) (fl : Bool) (fg fom : Nat) (hf : fom ≠ 0) (src : Bytes) (rest bits : Nat)
    (D : List Pixel) (k m : Nat) (hk : k = 0 ∨ 8 ≤ k) (h1 : 1 ≤ bits) (h8 : bits ≤ 8) :
    fgbgPix w fl fg fom (bits + rest) D k m src
      = fgbgPix w fl fg fom rest (writeFgBg D w fl fom fg bits 0) bits fom src := by
  obtain ⟨j, rfl⟩ : ∃ j, bits = j + 1 := ⟨bits - 1, by omega⟩
  rw [show j + 1 + rest = (j + rest) + 1 by omega]
  simp only [fgbgPix, hk, if_true, ne_eq, hf, not_false_eq_true]
  rw [fgbgPix_within w fl fg fom fom src rest j _ 1 (by omega) (by omega), writeFgBg_succ]
  congr 1; omega

/-- **`fgbgBytes` is the per-pixel function** -/
theorem fgbgBytes_eq (w : Nat) (fl : Bool) (fg : Nat) (fuel : Nat) :
    ∀ (run : Nat) (D : List Pixel) (src : Bytes) (k m : Nat), (k = 0 ∨ 8 ≤ k) → run < fuel →
      fgbgBytes D w fl fg fuel run src = fgbgPix w fl fg 0 run D k m src := by
  induction fuel with
  | zero => intro run _ _ _ _ _ h; omega
  | succ fuel ih =>
    intro run D src k m hk hlt
    unfold fgbgBytes
    by_cases h0 : run = 0
    · subst h0; simp [fgbgPix]
    · simp only [h0, if_false]
      cases src with
      | nil =>
        obtain ⟨r', rfl⟩ : ∃ r', run = r' + 1 := ⟨run - 1, by omega⟩
        simp [fgbgPix, hk]
      | cons b r =>
        simp only []
        by_cases h8 : run > 8
        · simp only [h8, if_true]
          rw [ih (run - 8) _ r 8 b.toNat (Or.inr (Nat.le_refl _)) (by omega)]
          have := fgbgPix_group w fl fg b r (run - 8) 8 D k m hk (by omega) (Nat.le_refl _)
          rw [show 8 + (run - 8) = run by omega] at this
          rw [this]
        · simp only [h8, if_false, Nat.sub_self]
          have := fgbgPix_group w fl fg b r 0 run D k m hk (by omega) (by omega)
          rw [Nat.add_zero] at this
          rw [this]
          cases fuel with
          | zero => omega
          | succ f => simp [fgbgBytes, fgbgPix]

theorem special_eq (w : Nat) (fl : Bool) (fg mask : Nat) (hm : mask ≠ 0) (D : List Pixel) (src : Bytes) :
    fgbgPix w fl fg mask 8 D 0 0 src = some (writeFgBg D w fl mask fg 8 0, src) := by
  have := fgbgPix_group_fom w fl fg mask hm src 0 8 D 0 0 (Or.inl rfl) (by omega) (Nat.le_refl _)
  rw [Nat.add_zero] at this
  rw [this]; simp [fgbgPix]

theorem fgbgPix_length (w : Nat) (fl : Bool) (fg fom : Nat) (n : Nat) :
    ∀ (D D' : List Pixel) (k m : Nat) (src src' : Bytes), fgbgPix w fl fg fom n D k m src = some (D', src') →
      D'.length = D.length + n := by
  induction n with
  | zero => intro D D' k m src src' h; simp only [fgbgPix, Option.some.injEq, Prod.mk.injEq] at h; rw [← h.1]; rfl
  | succ n ih =>
    intro D D' k m src src' h
    simp only [fgbgPix] at h
    split at h
    · split at h
      · have := ih _ _ _ _ _ _ h; simp at this; omega
      · cases src with
        | nil => cases h
        | cons b r => have := ih _ _ _ _ _ _ h; simp at this; omega
    · have := ih _ _ _ _ _ _ h; simp at this; omega


/-! ### the port's mask state -/

theorem u8_shift_wrap : ∀ j, j < 8 → ((UInt8.ofNat (2 ^ j) <<< 1 = 0) ↔ j = 7) := by decide
theorem u8_shift_next : ∀ j, j < 7 → UInt8.ofNat (2 ^ j) <<< 1 = UInt8.ofNat (2 ^ (j + 1)) := by decide
theorem u8_bit : ∀ j, j < 8 → ∀ m, m < 256 →
    (((UInt8.ofNat m &&& UInt8.ofNat (2 ^ j)) ≠ 0) ↔ (m >>> j) % 2 = 1) := by decide +kernel

/-- `k` bits of mask `m` are used: the port's `mixmask` is `2^(k-1)` (0 before the first mask) -/
def MaskSt (s : St) (k m : Nat) : Prop :=
  (k = 0 ∧ s.mixmask = 0) ∨ (1 ≤ k ∧ k ≤ 8 ∧ s.mixmask = UInt8.ofNat (2 ^ (k - 1)) ∧ s.mask = UInt8.ofNat m ∧ m < 256)

theorem MaskSt.wrap {s : St} {k m : Nat} (h : MaskSt s k m) : (s.mixmask <<< 1 = 0) ↔ (k = 0 ∨ 8 ≤ k) := by
  rcases h with ⟨rfl, h0⟩ | ⟨h1, h8, hm, _, _⟩
  · rw [h0]; simp
  · rw [hm, u8_shift_wrap (k - 1) (by omega)]; omega

/-- the mask step and the bit it selects, in terms of the abstract mask state -/
theorem maskStep_spec {inp : Input} {fom : UInt8} {s : St} {k m : Nat} (h : MaskSt s k m) :
    (¬ (k = 0 ∨ 8 ≤ k) → ∃ s1, maskStep inp fom s = .ok s1 ∧ s1 = { s with mixmask := s.mixmask <<< 1 } ∧
        MaskSt s1 (k + 1) m ∧ (bit s1 = true ↔ (m >>> k) % 2 = 1)) ∧
    ((k = 0 ∨ 8 ≤ k) → fom ≠ 0 → ∃ s1, maskStep inp fom s = .ok s1 ∧ s1 = { s with mask := fom, mixmask := 1 } ∧
        MaskSt s1 1 fom.toNat ∧ (bit s1 = true ↔ (fom.toNat >>> 0) % 2 = 1)) ∧
    ((k = 0 ∨ 8 ≤ k) → fom = 0 → ∀ b r, srcOf inp s.pos = b :: r →
        ∃ s1, maskStep inp fom s = .ok s1 ∧ s1 = { s with pos := s.pos + 1, mask := b, mixmask := 1 } ∧
        MaskSt s1 1 b.toNat ∧ (bit s1 = true ↔ (b.toNat >>> 0) % 2 = 1)) := by
  have hw := h.wrap
  have hbit1 : ∀ (x : UInt8), ((x &&& 1) ≠ 0) ↔ (x.toNat >>> 0) % 2 = 1 := by
    intro x
    have := u8_bit 0 (by omega) x.toNat x.toNat_lt
    simpa using this
  refine ⟨?_, ?_, ?_⟩
  · intro hk
    rcases h with ⟨rfl, _⟩ | ⟨h1, h8, hm, hmask, hm256⟩
    · exact absurd (Or.inl rfl) hk
    · have hk7 : k ≤ 7 := by omega
      refine ⟨_, ?_, rfl, ?_, ?_⟩
      · unfold maskStep; rw [if_neg (fun hh => hk (hw.mp hh))]
      · right
        refine ⟨by omega, by omega, ?_, hmask, hm256⟩
        simp only
        rw [hm, u8_shift_next (k - 1) (by omega)]
        congr 2; omega
      · unfold bit
        simp only
        rw [hm, hmask, u8_shift_next (k - 1) (by omega), show k - 1 + 1 = k by omega]
        simpa using u8_bit k (by omega) m hm256
  · intro hk hf
    refine ⟨_, ?_, rfl, ?_, ?_⟩
    · unfold maskStep; rw [if_pos (hw.mpr hk), if_pos hf]
    · right; exact ⟨by omega, by omega, by simp, by simp, fom.toNat_lt⟩
    · unfold bit; simp only; simpa using hbit1 fom
  · intro hk hf b r hs
    obtain ⟨hr, _⟩ := readU8_src hs
    refine ⟨_, ?_, rfl, ?_, ?_⟩
    · unfold maskStep; rw [if_pos (hw.mpr hk), if_neg (by simp [hf]), hr]; rfl
    · right; exact ⟨by omega, by omega, by simp, by simp, b.toNat_lt⟩
    · unfold bit; simp only; simpa using hbit1 b


/-- the value the port writes for one FG/BG pixel is the reference decoder's -/
theorem fgbg_val {w h0 : Nat} {s1 : St} {D : List Pixel} {fl : Bool} {mm i : Nat}
    (hD : toNats (flat w h0 s1) = D) (hfl : D.length < w ↔ fl = true) (hb : bit s1 = true ↔ (mm >>> i) % 2 = 1) :
    (abv w (flat w h0 s1) (fun v => if bit s1 then v ^^^ s1.mix else v) (if bit s1 then s1.mix else 0)).toNat
      = fgPx w fl s1.mix.toNat mm i D := by
  have hl : (flat w h0 s1).length = D.length := by rw [← hD, toNats_length]
  unfold abv fgPx
  rw [hl]
  by_cases hlw : D.length < w
  · rw [if_pos hlw, hfl.mp hlw]
    simp only [if_true]
    by_cases hbit : bit s1 = true
    · rw [if_pos hbit, if_pos (hb.mp hbit)]
    · rw [if_neg hbit, if_neg (fun h => hbit (hb.mpr h))]; rfl
  · have hf : fl = false := by
      cases fl with
      | false => rfl
      | true => exact absurd (hfl.mpr rfl) hlw
    rw [if_neg hlw, hf]
    simp only [Bool.false_eq_true, if_false]
    have hab : ((flat w h0 s1).getD (D.length - w) 0).toNat = abovePel D w := by
      rw [abovePel, ← hD, toNats_getD, toNats_length, hl]
    by_cases hbit : bit s1 = true
    · rw [if_pos hbit, if_pos (hb.mp hbit), UInt16.toNat_xor, hab]
    · rw [if_neg hbit, if_neg (fun h => hbit (hb.mpr h)), hab]

/-- one FG/BG pixel -/
theorem fgbg_step {inp : Input} {w h0 : Nat} (fom : UInt8) {t : St} {D D' : List Pixel} {src src' : Bytes}
    {fl : Bool} {k m n : Nat} (rt : Ready w h0 t) (hc : 0 < t.count) (hm : MaskSt t k m)
    (hs : srcOf inp t.pos = src) (hD : toNats (flat w h0 t) = D) (hfl : D.length < w ↔ fl = true)
    (hpix : fgbgPix w fl t.mix.toNat fom.toNat (n + 1) D k m src = some (D', src')) :
    ∃ t2 k' m' src2 px, exprStep inp 2 fom t = .ok t2 ∧ Inv2 w h0 t2 ∧ toNats (flat w h0 t2) = D ++ [px] ∧
      MaskSt t2 k' m' ∧ srcOf inp t2.pos = src2 ∧
      fgbgPix w fl t.mix.toNat fom.toNat n (D ++ [px]) k' m' src2 = some (D', src') ∧
      t2.count = t.count - 1 ∧ t2.insertmix = t.insertmix ∧ t2.mix = t.mix ∧ t2.bicolour = t.bicolour ∧
      t2.lastop = t.lastop ∧ t2.x = t.x + 1 := by
  obtain ⟨hnw, hwf, hwr⟩ := maskStep_spec (inp := inp) (fom := fom) hm
  have hne : ¬ t.count = 0 := by omega
  -- common tail: after the mask step produced `s1` (same buffer and cursor as `t`)
  have tail : ∀ (s1 : St) (k' m' : Nat) (src2 : Bytes) (i mm : Nat), maskStep inp fom t = .ok s1 → GeoEq t s1 →
      s1.count = t.count → s1.insertmix = t.insertmix → s1.mix = t.mix → s1.bicolour = t.bicolour → s1.lastop = t.lastop →
      MaskSt s1 k' m' → srcOf inp s1.pos = src2 → (bit s1 = true ↔ (mm >>> i) % 2 = 1) →
      fgbgPix w fl t.mix.toNat fom.toNat n (D ++ [fgPx w fl t.mix.toNat mm i D]) k' m' src2 = some (D', src') →
      ∃ t2 k' m' src2 px, exprStep inp 2 fom t = .ok t2 ∧ Inv2 w h0 t2 ∧ toNats (flat w h0 t2) = D ++ [px] ∧
        MaskSt t2 k' m' ∧ srcOf inp t2.pos = src2 ∧
        fgbgPix w fl t.mix.toNat fom.toNat n (D ++ [px]) k' m' src2 = some (D', src') ∧
        t2.count = t.count - 1 ∧ t2.insertmix = t.insertmix ∧ t2.mix = t.mix ∧ t2.bicolour = t.bicolour ∧
        t2.lastop = t.lastop ∧ t2.x = t.x + 1 := by
    intro s1 k' m' src2 i mm hms g e1 e2 e3 e4 e5 hm1 hs1 hbit hrest
    have r1 : Ready w h0 s1 := Ready.of_geo g rt
    have hD1 : toNats (flat w h0 s1) = D := by rw [g.flat]; exact hD
    let v : UInt16 := abv w (flat w h0 s1) (fun v => if bit s1 then v ^^^ s1.mix else v) (if bit s1 then s1.mix else 0)
    have hv : v.toNat = fgPx w fl t.mix.toNat mm i D := by rw [← e3]; exact fgbg_val hD1 hfl hbit
    let t2 : St := { s1 with out := s1.out.setIfInBounds (s1.height * w + s1.x) v, count := s1.count - 1, x := s1.x + 1 }
    refine ⟨t2, k', m', src2, fgPx w fl t.mix.toNat mm i D, ?_, r1.advance rfl rfl rfl (by simp [t2]) rfl, ?_, ?_, hs1, hrest,
      by simp only [t2]; rw [e1], e2, e3, e4, e5, by simp only [t2]; rw [g.x]⟩
    · unfold exprStep expr
      have hne1 : ¬ s1.count = 0 := by rw [e1]; exact hne
      simp only [hms, Outcome.bind_ok, putAbove_ready r1, hne1, if_false]
      rfl
    · have hf2 : flat w h0 t2 = flat w h0 s1 ++ [v] := flat_put r1 v rfl rfl rfl
      rw [hf2, toNats_append, hD1]; simp [toNats, hv]
    · rcases hm1 with ⟨a, b⟩ | ⟨a, b, c, d, e⟩
      · left; exact ⟨a, b⟩
      · right; exact ⟨a, b, c, d, e⟩
  by_cases hk : k = 0 ∨ 8 ≤ k
  · by_cases hf : fom = 0
    · -- a mask byte is read
      have hf0 : fom.toNat = 0 := by rw [hf]; rfl
      simp only [fgbgPix, hk, if_true, hf0, ne_eq, not_true_eq_false, if_false] at hpix
      cases src with
      | nil => cases hpix
      | cons b r =>
        simp only at hpix
        obtain ⟨s1, hms, hs1, hm1, hb1⟩ := hwr hk hf b r hs
        subst hs1
        obtain ⟨_, hr⟩ := readU8_src hs
        have hpix' : fgbgPix w fl t.mix.toNat fom.toNat n (D ++ [fgPx w fl t.mix.toNat b.toNat 0 D]) 1 b.toNat r
            = some (D', src') := by rw [hf0]; exact hpix
        exact tail _ 1 b.toNat r 0 b.toNat hms ⟨rfl, rfl, rfl, rfl, rfl⟩ rfl rfl rfl rfl rfl hm1 hr hb1 hpix'
    · have hfn : fom.toNat ≠ 0 := by
        intro h; apply hf; exact UInt8.toNat_inj.mp (by rw [h]; rfl)
      simp only [fgbgPix, hk, if_true, ne_eq, hfn, not_false_eq_true] at hpix
      obtain ⟨s1, hms, hs1, hm1, hb1⟩ := hwf hk hf
      subst hs1
      exact tail _ 1 fom.toNat src 0 fom.toNat hms ⟨rfl, rfl, rfl, rfl, rfl⟩ rfl rfl rfl rfl rfl hm1 hs hb1 hpix
  · simp only [fgbgPix, hk, if_false] at hpix
    obtain ⟨s1, hms, hs1, hm1, hb1⟩ := hnw hk
    subst hs1
    exact tail _ (k + 1) m src k m hms ⟨rfl, rfl, rfl, rfl, rfl⟩ rfl rfl rfl rfl rfl hm1 hs hb1 hpix

/-- **An FG/BG image run** (mask bytes from the input, or the fixed mask of a special order) -/
theorem ploop_fgbg {inp : Input} {w h0 : Nat} (fom : UInt8) (hw : 0 < w) (fl : Bool) (n : Nat) :
    ∀ (G : Nat) {s : St} {D D' : List Pixel} {src src' : Bytes} {k m : Nat}, Inv2 w h0 s → s.count = n →
      toNats (flat w h0 s) = D → D.length + n ≤ w * h0 → n < G → srcOf inp s.pos = src → MaskSt s k m →
      (∀ L, D.length ≤ L → L < D.length + n → (L < w ↔ fl = true)) →
      fgbgPix w fl s.mix.toNat fom.toNat n D k m src = some (D', src') →
      ∃ s', ploop inp 2 fom w G s = .ok s' ∧ Inv2 w h0 s' ∧ toNats (flat w h0 s') = D' ∧
        srcOf inp s'.pos = src' ∧ s'.insertmix = s.insertmix ∧ s'.mix = s.mix ∧ s'.bicolour = s.bicolour ∧
        s'.lastop = s.lastop ∧ s'.count = 0 ∧ (0 < s.x ∨ 0 < n → 0 < s'.x) := by
  induction n with
  | zero =>
    intro G s D D' src src' k m h hc hD _ hG hs _ _ hp
    cases G with
    | zero => omega
    | succ G =>
      simp only [fgbgPix, Option.some.injEq, Prod.mk.injEq] at hp
      refine ⟨s, ?_, h, by rw [← hp.1]; exact hD, by rw [← hp.2]; exact hs, rfl, rfl, rfl, rfl, hc, ?_⟩
      · unfold ploop; simp [hc]
      · intro hx; rcases hx with hx | hx
        · exact hx
        · omega
  | succ n ih =>
    intro G s D D' src src' k m h hc hD hroom hG hs hm hfl hp
    cases G with
    | zero => omega
    | succ G =>
      have hlen : D.length = emitted w h0 s := by rw [← hD, toNats_length, flat_length]
      obtain ⟨t, hnl, rt, hft, het, hsc, hout⟩ := newline_ready h hw (by omega)
      obtain ⟨p1, p2, p3, p4, p5, p6, p7, p8, p9, p10⟩ := hsc
      have hmt : MaskSt t k m := by
        rcases hm with ⟨a, b⟩ | ⟨a, b, c, d, e⟩
        · left; exact ⟨a, by rw [p7]; exact b⟩
        · right; exact ⟨a, b, by rw [p7]; exact c, by rw [p6]; exact d, e⟩
      obtain ⟨t2, k', m', src2, px, hstep, hi2, hD2, hm2, hs2, hp2, c2, i2, x2, b2, l2, xx2⟩ :=
        fgbg_step (inp := inp) (src := src) (D' := D') (src' := src') (n := n) fom rt (by rw [p9]; omega) hmt (by rw [p1]; exact hs) (by rw [hft]; exact hD)
          (hfl D.length (Nat.le_refl _) (by omega)) (by rw [p5]; exact hp)
      obtain ⟨s', hs', hi', hf', q1, q2, q3, q4, q5, q6, q7⟩ :=
        ih G (s := t2) hi2 (by rw [c2, p9]; omega) hD2
          (by simp only [List.length_append, List.length_cons, List.length_nil]; omega) (by omega) hs2 hm2
          (by
            intro L h1 h2
            simp only [List.length_append, List.length_cons, List.length_nil] at h1 h2
            exact hfl L (by omega) (by omega))
          (by rw [x2, p5]; rw [p5] at hp2; exact hp2)
      refine ⟨s', ?_, hi', hf', q1, by rw [q2, i2]; exact p2, by rw [q3, x2]; exact p5, by rw [q4, b2]; exact p8,
        by rw [q5, l2]; exact p10, q6, fun _ => q7 (Or.inl (by omega))⟩
      unfold ploop pstep
      simp only [show s.count > 0 by omega, if_true, hnl, Outcome.bind_ok, hstep]
      exact hs'

end Rdp.Rle16
