import RdpModel.Wire.Per
import RdpModel.Base.Bits
namespace Rdp.Per
open Rdp

theorem readU8_cons (b : UInt8) (r : Bytes) : readU8 (b :: r) = .ok b.toNat r := by
  simp [readU8, rdExact, leNat]

theorem rdExact_app (n : Nat) (a r : Bytes) (h : a.length = n) : rdExact n (a ++ r) = .ok a r := by
  subst h; simp [rdExact]

theorem readU16be_enc (v : Nat) (h : v < 65536) (r : Bytes) :
    readU16be (encInt .be 2 v ++ r) = .ok v r := by
  unfold readU16be
  rw [rdExact_app 2 _ _ (encInt_length .be 2 v)]
  simp [decInt_encInt .be 2 v (by simpa using h)]

theorem readU32be_enc (v : Nat) (h : v < 4294967296) (r : Bytes) :
    readU32be (encInt .be 4 v ++ r) = .ok v r := by
  unfold readU32be
  rw [rdExact_app 4 _ _ (encInt_length .be 4 v)]
  simp [decInt_encInt .be 4 v (by simpa using h)]

theorem readLength_writeLength (n : Nat) (h : n ≤ 0x7fff) (r : Bytes) :
    readLength (writeLength n ++ r) = .ok n r := by
  unfold writeLength
  by_cases hn : n > 0x7f
  · simp only [hn, if_true]
    rw [or_8000 n (by omega), encInt_be2]
    simp only [List.cons_append, List.nil_append, readLength, readU8_cons, RR.bind_ok]
    have h1 : (n + 0x8000) / 256 % 256 = 128 + n / 256 := by omega
    have h2 : (n + 0x8000) % 256 = n % 256 := by omega
    rw [h1, h2, u8_ofNat_toNat _ (by omega), u8_ofNat_toNat _ (by omega)]
    have hb : (128 + n / 256) &&& 0x80 ≠ 0 := by rw [and80_iff _ (by omega)]; omega
    rw [if_pos hb, and7f_mod _ (by omega), shl8]
    congr 1; omega
  · simp only [hn, if_false, List.cons_append, List.nil_append, readLength, readU8_cons, RR.bind_ok]
    rw [u8_ofNat_toNat _ (by omega)]
    have hb : ¬ (n &&& 0x80 ≠ 0) := by rw [and80_iff _ (by omega)]; omega
    rw [if_neg hb]

theorem readInteger_writeInteger (n : Nat) (h : n < 4294967296) (r : Bytes) :
    readInteger (writeInteger n ++ r) = .ok n r := by
  unfold writeInteger readInteger
  by_cases h1 : n < 0xFF
  · simp only [h1, if_true, List.append_assoc]
    rw [readLength_writeLength 1 (by decide)]
    simp [readU8_cons, u8_ofNat_toNat n (by omega)]
  · simp only [h1, if_false]
    by_cases h2 : n < 0xFFFF
    · simp only [h2, if_true, List.append_assoc]
      rw [readLength_writeLength 2 (by decide)]
      simp [readU16be_enc n (by omega)]
    · simp only [h2, if_false, List.append_assoc]
      rw [readLength_writeLength 4 (by decide)]
      simp [readU32be_enc n h]

theorem readInteger16_writeInteger16 (v minimum : Nat) (h1 : minimum ≤ v) (h2 : v < 65536) (r : Bytes) :
    ∃ bs, writeInteger16 v minimum = .ok bs ∧ readInteger16 minimum (bs ++ r) = .ok v r := by
  refine ⟨encInt .be 2 (v - minimum), by simp [writeInteger16, h1], ?_⟩
  unfold readInteger16
  rw [readU16be_enc _ (by omega)]
  have : v - minimum + minimum < 65536 := by omega
  simp [this]; omega

theorem readOid_writeOid (a b c d e f : Nat) (ha : a < 16) (hb : b < 16) (hc : c < 256) (hd : d < 256)
    (he : e < 256) (hf : f < 256) (r : Bytes) :
    ∃ bs, writeOid [a, b, c, d, e, f] = .ok bs ∧ readOid [a, b, c, d, e, f] (bs ++ r) = .ok true r := by
  refine ⟨_, rfl, ?_⟩
  have hab : ((a <<< 4) % 256 ||| (b &&& 0xf)) = a * 16 + b := by
    have : ∀ a, a < 16 → ∀ b, b < 16 → ((a <<< 4) % 256 ||| (b &&& 0xf)) = a * 16 + b := by decide +kernel
    exact this a ha b hb
  have h0 : ∀ n, n < 256 → (n >>> 4 = n / 16) := shr4_div
  rw [hab]
  have hlen : ∀ tl : Bytes, readLength ((5 : UInt8) :: tl) = .ok 5 tl := by
    intro tl; simp [readLength, readU8_cons]
  simp only [readOid, List.length_cons, List.length_nil, List.cons_append, List.nil_append,
    ne_eq, not_true_eq_false, if_false, hlen, RR.bind_ok, readU8_cons]
  rw [u8_ofNat_toNat _ (by omega), u8_ofNat_toNat c hc, u8_ofNat_toNat d hd, u8_ofNat_toNat e he, u8_ofNat_toNat f hf]
  rw [h0 _ (by omega), and0f_mod _ (by omega)]
  have e1 : (a * 16 + b) / 16 = a := by omega
  have e2 : (a * 16 + b) % 16 = b := by omega
  simp [e1, e2]

theorem readOctetStream_go (es r : Bytes) : readOctetStream.go es (es ++ r) = .ok () r := by
  induction es with
  | nil => simp [readOctetStream.go]
  | cons e es ih => simp [readOctetStream.go, readU8_cons, ih]

theorem readOctetStream_write (os : Bytes) (minimum : Nat) (h1 : minimum ≤ os.length)
    (h2 : os.length - minimum ≤ 0x7fff) (r : Bytes) :
    readOctetStream os minimum (writeOctetStream os minimum ++ r) = .ok () r := by
  unfold readOctetStream writeOctetStream
  simp only [h1, if_true, List.append_assoc]
  have : (os.length - minimum) % 65536 = os.length - minimum := by omega
  rw [this, readLength_writeLength _ h2]
  have h3 : ¬ (os.length - minimum + minimum ≠ os.length) := by omega
  simp only [RR.bind_ok, h3, if_false]
  exact readOctetStream_go os r

/-! ### the readers are total -/

theorem readU8_np (s : Bytes) : ∀ p, readU8 s ≠ .panic p := by
  intro p; unfold readU8 rdExact; split <;> simp
theorem readU16be_np (s : Bytes) : ∀ p, readU16be s ≠ .panic p := by
  intro p; unfold readU16be rdExact; split <;> simp
theorem readU32be_np (s : Bytes) : ∀ p, readU32be s ≠ .panic p := by
  intro p; unfold readU32be rdExact; split <;> simp
theorem readInteger16_np (m : Nat) (s : Bytes) : ∀ p, readInteger16 m s ≠ .panic p := by
  intro p; unfold readInteger16
  cases h : readU16be s with
  | ok v r => simp only [RR.bind_ok]; split <;> simp
  | err r => simp
  | panic q => exact absurd h (readU16be_np s q)
theorem readLength_np (s : Bytes) : ∀ p, readLength s ≠ .panic p := by
  intro p; unfold readLength
  cases h : readU8 s with
  | ok v r =>
    simp only [RR.bind_ok]; split
    · cases h2 : readU8 r with
      | ok v2 r2 => simp
      | err r2 => simp
      | panic q => exact absurd h2 (readU8_np r q)
    · simp
  | err r => simp
  | panic q => exact absurd h (readU8_np s q)
theorem readInteger_np (s : Bytes) : ∀ p, readInteger s ≠ .panic p := by
  intro p; unfold readInteger
  cases h : readLength s with
  | ok v r =>
    simp only [RR.bind_ok]
    split; · exact readU8_np r p
    split; · exact readU16be_np r p
    split; · exact readU32be_np r p
    simp
  | err r => simp
  | panic q => exact absurd h (readLength_np s q)
theorem bind_np {α β} (r : RR α) (k : α → Bytes → RR β) (h1 : ∀ p, r ≠ .panic p)
    (h2 : ∀ a rest, r = .ok a rest → ∀ p, k a rest ≠ .panic p) : ∀ p, r.bind k ≠ .panic p := by
  intro p
  cases hr : r with
  | ok a rest => simpa using h2 a rest hr p
  | err e => simp
  | panic q => exact absurd hr (h1 q)
theorem readOid_np (oid : List Nat) (s : Bytes) : ∀ p, readOid oid s ≠ .panic p := by
  unfold readOid
  split
  · intro p; simp
  · apply bind_np _ _ (readLength_np s); intro len r _
    split
    · intro p; simp
    · apply bind_np _ _ (readU8_np r); intro _ r _
      apply bind_np _ _ (readU8_np r); intro _ r _
      apply bind_np _ _ (readU8_np r); intro _ r _
      apply bind_np _ _ (readU8_np r); intro _ r _
      apply bind_np _ _ (readU8_np r); intro _ r _
      intro p; simp
theorem readOctetStream_go_np (es r : Bytes) : ∀ p, readOctetStream.go es r ≠ .panic p := by
  induction es generalizing r with
  | nil => intro p; simp [readOctetStream.go]
  | cons e es ih =>
    simp only [readOctetStream.go]
    apply bind_np _ _ (readU8_np r); intro c r' _
    split
    · exact ih r'
    · intro p; simp
theorem readOctetStream_np (e : Bytes) (m : Nat) (s : Bytes) : ∀ p, readOctetStream e m s ≠ .panic p := by
  unfold readOctetStream
  apply bind_np _ _ (readLength_np s); intro len r _
  split
  · intro p; simp
  · exact readOctetStream_go_np e r

end Rdp.Per
