import RdpModel.Lemmas.Rle16Flat
/-
  One pixel of `rle_16_decompress` in stream terms: the new-line step keeps the raster,
  a macro step of a "simple" order (background run, foreground run, colour run, white,
  black) appends the value the order prescribes; whole simple runs by induction.
-/
namespace Rdp.Rle16
open Rdp

theorem emitted_pmu {w h0 : Nat} {s : St} (h : Inv2 w h0 s) : emitted w h0 s + pmu w s = w * h0 := by
  have h2 := h.inv.xle
  unfold emitted pmu
  cases hl : s.line with
  | none =>
    obtain ⟨e1, e2⟩ := h.start hl
    rw [e1, e2, Nat.mul_comm w]; simp
  | some l =>
    obtain ⟨_, hlt⟩ := h.inv.lineSome l hl
    obtain ⟨k, hk⟩ : ∃ k, h0 = s.height + (k + 1) := ⟨h0 - s.height - 1, by omega⟩
    subst hk
    rw [Nat.add_sub_cancel_left, Nat.mul_comm w, Nat.add_mul s.height, Nat.add_mul k]
    omega

/-- everything except the cursor geometry -/
def Scalars (s t : St) : Prop :=
  t.pos = s.pos ∧ t.insertmix = s.insertmix ∧ t.c1 = s.c1 ∧ t.c2 = s.c2 ∧ t.mix = s.mix ∧ t.mask = s.mask ∧
  t.mixmask = s.mixmask ∧ t.bicolour = s.bicolour ∧ t.count = s.count ∧ t.lastop = s.lastop

theorem Scalars.refl (s : St) : Scalars s s := ⟨rfl, rfl, rfl, rfl, rfl, rfl, rfl, rfl, rfl, rfl⟩

/-- the new-line step on a state with room for one more pixel: succeeds, makes the state
    ready, keeps the raster and all scalars -/
theorem newline_ready {w h0 : Nat} {s : St} (h : Inv2 w h0 s) (hw : 0 < w) (hroom : emitted w h0 s < w * h0) :
    ∃ t, newline w s = .ok t ∧ Ready w h0 t ∧ flat w h0 t = flat w h0 s ∧ emitted w h0 t = emitted w h0 s ∧
      Scalars s t ∧ t.out = s.out := by
  by_cases hx : s.x < w
  · refine ⟨s, ?_, ⟨h, hx⟩, rfl, rfl, Scalars.refl s, rfl⟩
    unfold newline; simp [Nat.not_le.mpr hx]
  · have hxe : s.x = w := Nat.le_antisymm h.inv.xle (Nat.not_lt.mp hx)
    have hhle := h.inv.hle
    have hem : emitted w h0 s = (h0 - s.height) * w := by unfold emitted; rw [hxe]; omega
    have hpos : 0 < s.height := by
      rcases Nat.eq_zero_or_pos s.height with hz | hp
      · rw [hem, hz, Nat.sub_zero, Nat.mul_comm] at hroom; omega
      · exact hp
    have hne : s.height ≠ 0 := by omega
    have hsafe := newline_safe h.inv
    unfold newline at hsafe ⊢
    simp only [Nat.not_lt.mp hx, hne, if_true, if_false] at hsafe ⊢
    obtain ⟨hinv, _, _, _, hxt, _⟩ := hsafe
    refine ⟨_, rfl, ⟨⟨hinv, ?_, ?_⟩, hxt hw⟩, ?_, ?_, ⟨rfl, rfl, rfl, rfl, rfl, rfl, rfl, rfl, rfl, rfl⟩, rfl⟩
    · intro hl; simp at hl
    · intro hp _
      simp only at hp ⊢
      have := (h.start hp).1
      omega
    · have he : emitted w h0 { s with x := 0, height := s.height - 1, prev := s.line, line := some ((s.height - 1) * w) }
          = emitted w h0 s := by
        rw [hem]; unfold emitted; simp only
        have : h0 - (s.height - 1) = (h0 - s.height) + 1 := by omega
        rw [this, Nat.add_mul]; omega
      unfold flat; rw [he]
    · rw [hem]; unfold emitted; simp only
      have : h0 - (s.height - 1) = (h0 - s.height) + 1 := by omega
      rw [this, Nat.add_mul]; omega

/-- advancing the cursor after a write keeps the invariant -/
theorem Ready.advance {w h0 : Nat} {t t' : St} (r : Ready w h0 t) (hh : t'.height = t.height) (hl : t'.line = t.line)
    (hp : t'.prev = t.prev) (ho : t'.out.size = t.out.size) (hx : t'.x = t.x + 1) : Inv2 w h0 t' := by
  refine ⟨r.inv2.inv.move4 hh hl hp ho (by have := r.xlt; omega) (fun _ => r.inv2.inv.xlt r.xlt), ?_, ?_⟩
  · intro hn; rw [hl] at hn; exact absurd hn (r.inv2.inv.xlt r.xlt)
  · intro hn hne; rw [hp] at hn; rw [hl] at hne; rw [hh]; exact r.inv2.first hn hne

/-- value written by one step of a simple order, as a function of the raster so far -/
def simpleVal (op : Nat) (mix c2 : UInt16) (w : Nat) (d : List UInt16) : UInt16 :=
  let ab := d.getD (d.length - w) 0
  if op = 0 then (if d.length < w then 0 else ab)
  else if op = 1 then (if d.length < w then mix else ab ^^^ mix)
  else if op = 3 then c2
  else if op = 13 then 0xffff
  else 0

def simpleOp (op : Nat) : Prop := op = 0 ∨ op = 1 ∨ op = 3 ∨ op = 13 ∨ op = 14

/-- value chosen by `if let Some(e) = prevline { f(output[e + x]) } else { d }`, in stream terms -/
def abv (w : Nat) (dl : List UInt16) (f : UInt16 → UInt16) (d : UInt16) : UInt16 :=
  if dl.length < w then d else f (dl.getD (dl.length - w) 0)

/-- `putAbove` on a ready state, in stream terms -/
theorem putAbove_ready {w h0 : Nat} {t : St} (r : Ready w h0 t) (f : UInt16 → UInt16) (d : UInt16) :
    putAbove t f d = .ok { t with out := t.out.setIfInBounds (t.height * w + t.x) (abv w (flat w h0 t) f d) } := by
  obtain ⟨hnone, hsome⟩ := above_flat r
  have key : putAbove t f d = put t (abv w (flat w h0 t) f d) := by
    unfold putAbove abv
    rw [flat_length]
    cases hp : t.prev with
    | none => simp only [hnone hp, if_true]
    | some e =>
      obtain ⟨hge, hab⟩ := hsome e hp
      simp only [Nat.not_lt.mpr hge, if_false, hab, Outcome.bind]
  rw [key, put_ready r]

/-- one macro step of a simple order on a ready state -/
theorem exprStep_simple {w h0 : Nat} (inp : Input) (op : Nat) (fom : UInt8) {t : St} (r : Ready w h0 t)
    (hop : simpleOp op) (hc : 0 < t.count) :
    exprStep inp op fom t = .ok { t with
      out := t.out.setIfInBounds (t.height * w + t.x) (simpleVal op t.mix t.c2 w (flat w h0 t)),
      count := t.count - 1, x := t.x + 1 } := by
  have hne : ¬ t.count = 0 := by omega
  unfold exprStep expr simpleVal
  rcases hop with rfl | rfl | rfl | rfl | rfl
  · simp only [putAbove_ready r, Outcome.bind, hne, if_false, if_true, abv]
  · simp only [putAbove_ready r, Outcome.bind, hne, if_false, if_true, abv]
    simp
  · simp only [put_ready r, Outcome.bind, hne, if_false]
    simp
  · simp only [put_ready r, Outcome.bind, hne, if_false]
    simp
  · simp only [put_ready r, Outcome.bind, hne, if_false]
    simp

/-- append `n` values computed one by one from the growing list -/
def growN {α : Type} (d : List α) : Nat → (List α → α) → List α
  | 0, _ => d
  | k+1, f => growN (d ++ [f d]) k f

theorem growN_length {α : Type} (d : List α) (n : Nat) (f : List α → α) : (growN d n f).length = d.length + n := by
  induction n generalizing d with
  | zero => rfl
  | succ k ih => simp [growN, ih]; omega

/-- **A whole simple run.**  From a state whose counter is `n` and whose bitmap has room
    for `n` more pixels, the per-pixel loop succeeds, the counter reaches 0, the raster
    grows by the `n` prescribed values, and nothing else changes. -/
theorem ploop_simple {w h0 : Nat} (inp : Input) (op : Nat) (fom : UInt8) (hw : 0 < w) (hop : simpleOp op)
    (n : Nat) : ∀ (G : Nat) {s : St}, Inv2 w h0 s → s.count = n → emitted w h0 s + n ≤ w * h0 → n < G →
      ∃ s', ploop inp op fom w G s = .ok s' ∧ Inv2 w h0 s' ∧
        flat w h0 s' = growN (flat w h0 s) n (simpleVal op s.mix s.c2 w) ∧
        s'.pos = s.pos ∧ s'.insertmix = s.insertmix ∧ s'.c1 = s.c1 ∧ s'.c2 = s.c2 ∧ s'.mix = s.mix ∧
        s'.mask = s.mask ∧ s'.mixmask = s.mixmask ∧ s'.bicolour = s.bicolour ∧ s'.count = 0 ∧
        s'.lastop = s.lastop ∧ (0 < s.x ∨ 0 < n → 0 < s'.x) := by
  induction n with
  | zero =>
    intro G s h hc _ hG
    cases G with
    | zero => omega
    | succ G =>
      refine ⟨s, ?_, h, rfl, rfl, rfl, rfl, rfl, rfl, rfl, rfl, rfl, hc, rfl, ?_⟩
      · unfold ploop; simp [hc]
      · intro hx; rcases hx with hx | hx
        · exact hx
        · omega
  | succ n ih =>
    intro G s h hc hroom hG
    cases G with
    | zero => omega
    | succ G =>
      obtain ⟨t, hnl, rt, hft, het, hsc, hout⟩ := newline_ready h hw (by omega)
      obtain ⟨p1, p2, p3, p4, p5, p6, p7, p8, p9, p10⟩ := hsc
      have hct : 0 < t.count := by omega
      have hstep := exprStep_simple inp op fom rt hop hct
      let t1 : St := { t with
        out := t.out.setIfInBounds (t.height * w + t.x) (simpleVal op t.mix t.c2 w (flat w h0 t)),
        count := t.count - 1, x := t.x + 1 }
      have h1 : Inv2 w h0 t1 := rt.advance rfl rfl rfl (by simp [t1]) rfl
      have hf1 : flat w h0 t1 = flat w h0 t ++ [simpleVal op t.mix t.c2 w (flat w h0 t)] :=
        flat_put rt _ rfl rfl rfl
      have he1 : emitted w h0 t1 = emitted w h0 t + 1 := by
        have := congrArg List.length hf1
        simpa [flat_length] using this
      obtain ⟨s', hs', hi', hfl', q1, q2, q3, q4, q5, q6, q7, q8, q9, q10, q11⟩ :=
        ih G (s := t1) h1 (by simp [t1]; omega) (by omega) (by omega)
      refine ⟨s', ?_, hi', ?_, ?_, ?_, ?_, ?_, ?_, ?_, ?_, ?_, q9, ?_, fun _ => q11 (Or.inl (by simp [t1]))⟩
      · unfold ploop pstep
        simp only [show s.count > 0 by omega, if_true, hnl, Outcome.bind, hstep]
        exact hs'
      · rw [hfl', hf1, hft]
        simp only [growN, t1, p5, p4]
      · rw [q1]; exact p1
      · rw [q2]; exact p2
      · rw [q3]; exact p3
      · rw [q4]; exact p4
      · rw [q5]; exact p5
      · rw [q6]; exact p6
      · rw [q7]; exact p7
      · rw [q8]; exact p8
      · rw [q10]; exact p10

end Rdp.Rle16
