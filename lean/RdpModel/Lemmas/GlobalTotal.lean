import RdpModel.Wire.Global
import RdpModel.Msg.Total
/-
  Helper lemmas for C06: every template used by global.rs is closure-safe, lookups after a
  read always hit, so nothing in `global::Client::read` can panic.
-/
namespace Rdp.Global
open Rdp Rdp.Schema

/-! ### all templates are closure-safe -/

theorem safe_shareControl : SafeT shareControlHeaderTmpl := by
  simp [shareControlHeaderTmpl, shareControlHeader, SafeT, SafeFields, SafeOpt, IntShape, u16le, blob]
theorem safe_shareData : SafeT shareDataHeaderTmpl := by
  simp [shareDataHeaderTmpl, shareDataHeader, SafeT, SafeFields, SafeOpt, IntShape, u16le, u32le, blob]
theorem safe_capSet : SafeT capabilitySetTmpl := by
  simp [capabilitySetTmpl, SafeT, SafeFields, SafeOpt, IntShape, u16le, blob]
theorem consuming_capSet : Consuming capabilitySetTmpl = true := by
  simp [capabilitySetTmpl, Consuming, u16le]
theorem safe_demandActive : SafeT demandActiveTmpl := by
  simp [demandActiveTmpl, SafeT, SafeFields, SafeOpt, IntShape, u16le, u32le, blob, safe_capSet, consuming_capSet]
theorem safe_confirmActive : SafeT confirmActiveTmpl := by
  simp [confirmActiveTmpl, SafeT, SafeFields, SafeOpt, IntShape, u16le, u32le, blob, safe_capSet, consuming_capSet]
theorem safe_deactivate : SafeT deactivateAllTmpl := by
  simp [deactivateAllTmpl, SafeT, SafeFields, SafeOpt, IntShape, u16le, u32le, blob]
theorem safe_sync : SafeT (synchronizePdu 0) := by
  simp [synchronizePdu, SafeT, SafeFields, IntShape, u16le]
theorem safe_control : SafeT (controlPdu 4) := by
  simp [controlPdu, SafeT, SafeFields, u16le, u32le]
theorem safe_fontList : SafeT fontListPdu := by simp [fontListPdu, SafeT, SafeFields, u16le]
theorem safe_fontMap : SafeT fontMapPdu := by simp [fontMapPdu, SafeT, SafeFields, u16le]
theorem safe_errInfo : SafeT setErrorInfoPdu := by simp [setErrorInfoPdu, SafeT, SafeFields, u32le]
theorem safe_fpUpdate : SafeT fpUpdateTmpl := by
  simp [fpUpdateTmpl, SafeT, SafeFields, SafeOpt, IntShape, u16le, blob]
theorem consuming_fpUpdate : Consuming fpUpdateTmpl = true := by simp [fpUpdateTmpl, Consuming]
theorem consuming_shareControl : Consuming shareControlHeaderTmpl = true := by
  simp [shareControlHeaderTmpl, shareControlHeader, Consuming, u16le]
theorem safe_cdHeader : SafeT cdHeaderTmpl := by
  simp [cdHeaderTmpl, SafeT, SafeFields, IntShape, u16le]
theorem safe_bitmapData : SafeT bitmapDataTmpl := by
  simp [bitmapDataTmpl, SafeT, SafeFields, SafeOpt, IntShape, u16le, blob, cdHeaderTmpl, lookupField]
theorem consuming_bitmapData : Consuming bitmapDataTmpl = true := by simp [bitmapDataTmpl, Consuming, u16le]
theorem safe_fpBitmap : SafeT fpUpdateBitmapTmpl := by
  simp [fpUpdateBitmapTmpl, SafeT, SafeFields, IntShape, u16le, safe_bitmapData, consuming_bitmapData]
theorem safe_colorPointer : SafeT colorPointerTmpl := by
  simp [colorPointerTmpl, SafeT, SafeFields, SafeOpt, IntShape, u16le, u32le, blob]
theorem safe_empty : SafeT emptyComp := by simp [emptyComp, SafeT, SafeFields]

theorem safe_generalCaps : SafeT (generalCaps 0) := by
  simp [generalCaps, SafeT, SafeFields, IntShape, u16le]
theorem safe_bitmapCaps : SafeT (bitmapCaps 0 0 0) := by
  simp [bitmapCaps, SafeT, SafeFields, IntShape, u16le]
theorem safe_orderCaps : SafeT (orderCaps 2) := by
  simp [orderCaps, SafeT, SafeFields, u16le, u32le, blob]
theorem safe_bitmapCacheCaps : SafeT bitmapCacheCaps := by
  simp [bitmapCacheCaps, SafeT, SafeFields, u16le, u32le]
theorem safe_pointerCaps : SafeT pointerCaps := by simp [pointerCaps, SafeT, SafeFields, u16le]
theorem safe_inputCaps : SafeT (inputCaps 0 0x40c) := by
  simp [inputCaps, SafeT, SafeFields, u16le, u32le, blob]
theorem safe_brushCaps : SafeT brushCaps := by simp [brushCaps, SafeT, SafeFields, u32le]
theorem safe_cacheEntry : SafeT cacheEntry := by simp [cacheEntry, SafeT, SafeFields, u16le]
theorem safeList_replicate (n : Nat) (t : Msg) (h : SafeT t) : SafeList (List.replicate n t) := by
  induction n with
  | zero => simp [SafeList]
  | succ k ih => simp [List.replicate, SafeList, h, ih]
theorem safe_glyphCaps : SafeT glyphCaps := by
  have h := safeList_replicate 10 cacheEntry safe_cacheEntry
  simp only [List.replicate] at h
  simp [glyphCaps, SafeT, SafeFields, u16le, u32le, h]
theorem safe_offscreenCaps : SafeT offscreenCaps := by simp [offscreenCaps, SafeT, SafeFields, u16le, u32le]
theorem safe_vcCaps : SafeT virtualChannelCaps := by simp [virtualChannelCaps, SafeT, SafeFields, u32le]
theorem safe_soundCaps : SafeT soundCaps := by simp [soundCaps, SafeT, SafeFields, u16le]
theorem safe_multifragCaps : SafeT multifragCaps := by simp [multifragCaps, SafeT, SafeFields, u32le]

theorem lookupCap_mem (tbl : List (Nat × Msg)) (ty : Nat) (t : Msg) (h : lookupCap tbl ty = some t) :
    ∃ k, (k, t) ∈ tbl := by
  induction tbl with
  | nil => simp [lookupCap] at h
  | cons kt rest ih =>
    obtain ⟨k, t'⟩ := kt
    simp only [lookupCap] at h
    split at h
    · injection h with h; subst h; exact ⟨k, by simp⟩
    · obtain ⟨k', hk⟩ := ih h; exact ⟨k', by simp [hk]⟩

theorem safe_capability (ty : Nat) (t : Msg) (h : capabilityTmpl ty = some t) : SafeT t := by
  obtain ⟨k, hk⟩ := lookupCap_mem capTable ty t h
  simp only [capTable, List.mem_cons, Prod.mk.injEq, List.not_mem_nil, or_false] at hk
  rcases hk with ⟨_, rfl⟩ | ⟨_, rfl⟩ | ⟨_, rfl⟩ | ⟨_, rfl⟩ | ⟨_, rfl⟩ | ⟨_, rfl⟩ | ⟨_, rfl⟩ | ⟨_, rfl⟩ |
    ⟨_, rfl⟩ | ⟨_, rfl⟩ | ⟨_, rfl⟩ | ⟨_, rfl⟩
  · exact safe_generalCaps
  · exact safe_bitmapCaps
  · exact safe_orderCaps
  · exact safe_bitmapCacheCaps
  · exact safe_pointerCaps
  · exact safe_inputCaps
  · exact safe_brushCaps
  · exact safe_glyphCaps
  · exact safe_offscreenCaps
  · exact safe_vcCaps
  · exact safe_soundCaps
  · exact safe_multifragCaps

/-! ### lookups and casts -/

theorem readAll_noPanic (t : Msg) (h : SafeT t) (b : Bytes) : ∀ p, readAll t b ≠ .panic p := by
  intro p hp
  unfold readAll at hp
  cases hr : read t b with
  | ok m r => rw [hr] at hp; cases hp
  | err r => rw [hr] at hp; cases hp
  | panic q => exact absurd hr (read_noPanic t h b q)

/-- a component with exactly these field names -/
def Named (m : Msg) (names : List String) : Prop := ∃ fs, m = .comp fs ∧ fs.map Prod.fst = names

theorem named_of_readAll (fs : List (String × Msg)) (b : Bytes) (m : Msg)
    (h : readAll (.comp fs) b = .ok m) : Named m (fs.map Prod.fst) := by
  unfold readAll at h
  cases hr : read (.comp fs) b with
  | ok m' r =>
    rw [hr] at h; injection h with h; subst h
    obtain ⟨fs', e1, e2⟩ := read_comp_names fs b m' r hr
    exact ⟨fs', e1, e2⟩
  | err r => rw [hr] at h; cases h
  | panic q => rw [hr] at h; cases h

theorem field_ok (fs : List (String × Msg)) (n : String) (h : n ∈ fs.map Prod.fst) :
    ∃ m, field fs n = .ok m := by
  obtain ⟨m, hm⟩ := lookupField_of_mem fs n h
  exact ⟨unwrapVisit m, by simp [field, hm]⟩

theorem castU8_np (fs : List (String × Msg)) (n : String) (h : n ∈ fs.map Prod.fst) : ∀ p, castU8 fs n ≠ .panic p := by
  obtain ⟨m, hm⟩ := field_ok fs n h
  intro p; simp only [castU8, hm, Outcome.bind_ok]; split <;> simp
theorem castU16_np (fs : List (String × Msg)) (n : String) (h : n ∈ fs.map Prod.fst) : ∀ p, castU16 fs n ≠ .panic p := by
  obtain ⟨m, hm⟩ := field_ok fs n h
  intro p; simp only [castU16, hm, Outcome.bind_ok]; split <;> simp
theorem castU32_np (fs : List (String × Msg)) (n : String) (h : n ∈ fs.map Prod.fst) : ∀ p, castU32 fs n ≠ .panic p := by
  obtain ⟨m, hm⟩ := field_ok fs n h
  intro p; simp only [castU32, hm, Outcome.bind_ok]; split <;> simp
theorem castSlice_np (fs : List (String × Msg)) (n : String) (h : n ∈ fs.map Prod.fst) : ∀ p, castSlice fs n ≠ .panic p := by
  obtain ⟨m, hm⟩ := field_ok fs n h
  intro p; simp only [castSlice, hm, Outcome.bind_ok]; split <;> simp
theorem castTrame_np (fs : List (String × Msg)) (n : String) (h : n ∈ fs.map Prod.fst) : ∀ p, castTrame fs n ≠ .panic p := by
  obtain ⟨m, hm⟩ := field_ok fs n h
  intro p; simp only [castTrame, hm, Outcome.bind_ok]; split <;> simp
theorem castComp_np (m : Msg) : ∀ p, castComp m ≠ .panic p := by
  intro p; unfold castComp; split <;> simp

theorem bind_np {α β} (o : Outcome α) (k : α → Outcome β) (h1 : ∀ p, o ≠ .panic p)
    (h2 : ∀ a, o = .ok a → ∀ p, k a ≠ .panic p) : ∀ p, o.bind k ≠ .panic p := by
  intro p
  cases ho : o with
  | ok a => simpa using h2 a ho p
  | err e => simp
  | panic q => exact absurd ho (h1 q)

/-- items of an array read are results of reading the element template -/
theorem arrayLoop_items (rd : Bytes → RR Msg) :
    ∀ (fuel : Nat) (s : Bytes) (acc xs : List Msg) (r : Bytes),
    readArrayLoop rd fuel s acc = .ok xs r →
    ∀ x ∈ xs, x ∈ acc ∨ ∃ b r', rd b = .ok x r' := by
  intro fuel
  induction fuel with
  | zero => intro s acc xs r h; simp [readArrayLoop] at h
  | succ f ih =>
    intro s acc xs r h x hx
    unfold readArrayLoop at h
    cases hr : rd s with
    | ok e rest =>
      rw [hr] at h; simp only at h
      split at h
      · rcases ih rest (e :: acc) xs r h x hx with h1 | h1
        · simp only [List.mem_cons] at h1
          rcases h1 with h1 | h1
          · subst h1; exact Or.inr ⟨s, rest, hr⟩
          · exact Or.inl h1
        · exact Or.inr h1
      · cases h
    | err rest =>
      rw [hr] at h; simp only at h
      injection h with h1 h2; subst h1
      left; simpa using hx
    | panic p => rw [hr] at h; cases h

theorem read_array (t : Msg) (items : List Msg) (s : Bytes) :
    read (.array (some t) items) s =
      (readArrayLoop (fun b => read t b) (s.length + 1) s []).bind fun xs r =>
        .ok (.array (some t) (items ++ xs)) r := by
  simp only [read]

theorem read_array_shape (t : Msg) (items : List Msg) (s : Bytes) (m : Msg) (r : Bytes)
    (h : read (.array (some t) items) s = .ok m r) : ∃ xs, m = .array (some t) (items ++ xs) := by
  rw [read_array] at h
  cases hl : readArrayLoop (fun b => read t b) (s.length + 1) s [] with
  | ok xs r' => rw [hl] at h; simp only [RR.bind_ok] at h; injection h with h1 h2; exact ⟨xs, h1.symm⟩
  | err e => rw [hl] at h; cases h
  | panic p => rw [hl] at h; cases h

theorem array_items_named (fs : List (String × Msg)) (s : Bytes) (tm : Option Msg) (items : List Msg) (r : Bytes)
    (h : read (.array (some (.comp fs)) []) s = .ok (.array tm items) r) :
    ∀ x ∈ items, Named x (fs.map Prod.fst) := by
  rw [read_array] at h
  cases hl : readArrayLoop (fun b => read (.comp fs) b) (s.length + 1) s [] with
  | ok xs r' =>
    rw [hl] at h; simp only [RR.bind_ok, List.nil_append] at h
    injection h with h1 h2; injection h1 with h3 h4; subst h4
    intro x hx
    rcases arrayLoop_items _ _ _ _ _ _ hl x hx with h5 | ⟨b, r'', h5⟩
    · simp at h5
    · obtain ⟨fs', e1, e2⟩ := read_comp_names fs b x r'' h5
      exact ⟨fs', e1, e2⟩
  | err e => rw [hl] at h; cases h
  | panic p => rw [hl] at h; cases h

/-- items of an array-valued field of a parsed component are components with the element
    template's field names -/
theorem field_array_items (fs efs : List (String × Msg)) (n : String)
    (hf : lookupField fs n = some (.array (some (.comp efs)) []))
    (b : Bytes) (m : Msg) (h : readAll (.comp fs) b = .ok m)
    (fs' : List (String × Msg)) (hc : castComp m = .ok fs') (items : List Msg)
    (hi : castTrame fs' n = .ok items) : ∀ x ∈ items, Named x (efs.map Prod.fst) := by
  unfold readAll at h
  cases hr : read (.comp fs) b with
  | err e => rw [hr] at h; cases h
  | panic p => rw [hr] at h; cases h
  | ok m' r =>
    rw [hr] at h; injection h with h; subst h
    simp only [read] at hr
    cases hrf : readFields fs [] [] b with
    | err e => rw [hrf] at hr; cases hr
    | panic p => rw [hrf] at hr; cases hr
    | ok fs'' r'' =>
      rw [hrf] at hr; simp only [RR.bind_ok] at hr; injection hr with e1 e2; subst e1
      simp only [castComp, unwrapVisit] at hc; injection hc with hc; subst hc
      -- the field's value
      simp only [castTrame, field] at hi
      cases hl : lookupField fs'' n with
      | none => rw [hl] at hi; simp at hi
      | some v =>
        rw [hl] at hi
        obtain ⟨t0, ht0, horig⟩ := readFields_origin fs [] [] b fs'' r'' hrf n v hl
        rw [hf] at ht0; injection ht0 with ht0; subst ht0
        rcases horig with hv | ⟨b', r', hv⟩
        · subst hv
          simp only [unwrapVisit, Outcome.bind_ok] at hi
          injection hi with hi; subst hi
          intro x hx; simp at hx
        · rw [read_array] at hv
          cases hloop : readArrayLoop (fun b => read (.comp efs) b) (b'.length + 1) b' [] with
          | err e => rw [hloop] at hv; cases hv
          | panic p => rw [hloop] at hv; cases hv
          | ok xs rr =>
            rw [hloop] at hv; simp only [RR.bind_ok, List.nil_append] at hv
            injection hv with e1 e2; subst e1
            simp only [unwrapVisit, Outcome.bind_ok] at hi
            injection hi with hi; subst hi
            intro x hx
            rcases arrayLoop_items _ _ _ _ _ _ hloop x hx with h5 | ⟨b2, r2, h5⟩
            · simp at h5
            · obtain ⟨fs3, e3, e4⟩ := read_comp_names efs b2 x r2 h5
              exact ⟨fs3, e3, e4⟩

/-- a component-valued field of a parsed component keeps its template's field names -/
theorem field_comp_named (fs efs : List (String × Msg)) (n : String)
    (hf : lookupField fs n = some (.comp efs))
    (b : Bytes) (m : Msg) (h : readAll (.comp fs) b = .ok m)
    (fs' : List (String × Msg)) (hc : castComp m = .ok fs') (v : Msg)
    (hv : field fs' n = .ok v) : Named v (efs.map Prod.fst) := by
  unfold readAll at h
  cases hr : read (.comp fs) b with
  | err e => rw [hr] at h; cases h
  | panic p => rw [hr] at h; cases h
  | ok m' r =>
    rw [hr] at h; injection h with h; subst h
    simp only [read] at hr
    cases hrf : readFields fs [] [] b with
    | err e => rw [hrf] at hr; cases hr
    | panic p => rw [hrf] at hr; cases hr
    | ok fs'' r'' =>
      rw [hrf] at hr; simp only [RR.bind_ok] at hr; injection hr with e1 e2; subst e1
      simp only [castComp, unwrapVisit] at hc; injection hc with hc; subst hc
      simp only [field] at hv
      cases hl : lookupField fs'' n with
      | none => rw [hl] at hv; simp at hv
      | some v0 =>
        rw [hl] at hv; injection hv with hv; subst hv
        obtain ⟨t0, ht0, horig⟩ := readFields_origin fs [] [] b fs'' r'' hrf n v0 hl
        rw [hf] at ht0; injection ht0 with ht0; subst ht0
        rcases horig with hv | ⟨b', r', hv⟩
        · subst hv; exact ⟨efs, by simp [unwrapVisit], rfl⟩
        · obtain ⟨fs3, e3, e4⟩ := read_comp_names efs b' v0 r' hv
          subst e3; exact ⟨fs3, by simp [unwrapVisit], e4⟩

end Rdp.Global
