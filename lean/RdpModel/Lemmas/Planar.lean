import RdpModel.Codec.Decompress
import RdpModel.Spec.Bitmap
/-
  Refinement of the planar (RDP 6.0, 32 bpp) decoder of src/codec/rle.rs (`process_plane`,
  `rle_32_decompress`, modelled in Codec/Decompress.lean) to the reference decoder of
  Spec/Bitmap.lean (`planarDecode`): a simulation, segment by segment, scanline by
  scanline, plane by plane.  The port writes into one interleaved BGRA buffer; the
  invariants (`LInv` for the scanline being written, `PInv` for a plane) say which
  positions hold which reference values and that every other position is untouched.
-/
namespace Rdp.Codec
open Rdp Rdp.Spec.Bitmap

/-! ### array facts -/

theorem emit_length (above : Option (List Nat)) (acc : List Nat) (d : Int) :
    (emit above acc d).length = acc.length + 1 := by
  unfold emit; split <;> simp

theorem rawsGo_length (above : Option (List Nat)) (xs acc : List Nat) (last : Int) :
    (rawsGo above xs acc last).1.length = acc.length + xs.length := by
  induction xs generalizing acc last with
  | nil => simp [rawsGo]
  | cons x xs ih => simp only [rawsGo, ih, emit_length, List.length_cons]; omega

theorem runGo_length (above : Option (List Nat)) (l : Int) (n : Nat) (acc : List Nat) :
    (runGo above l n acc).length = acc.length + n := by
  induction n generalizing acc with
  | zero => simp [runGo]
  | succ n ih => simp only [runGo, ih, emit_length]; omega


/-! ### one scanline of one plane -/

theorem getD_set (a : Array UInt8) (i p : Nat) (v : UInt8) (hi : i < a.size) :
    (a.setIfInBounds i v).getD p 0 = if p = i then v else a.getD p 0 := by
  simp only [Array.getD_eq_getD_getElem?, Array.getElem?_setIfInBounds]
  by_cases h : p = i
  · subst h; simp [hi]
  · have : ¬ i = p := fun e => h e.symm
    simp [h, this]

/-- geometry of the row being decoded (`base`), the row decoded before it (`lastLine`),
    and what the reference knows as the scanline above -/
structure Geom (off base lastLine w : Nat) (first : Bool) (above : Option (List Nat))
    (out0 : Array UInt8) : Prop where
  offle : off ≤ 3
  basele : base + w * 4 ≤ out0.size
  firstIff : first = true ↔ above = none
  lastle : first = false → base + w * 4 ≤ lastLine ∧ lastLine + w * 4 ≤ out0.size
  ab : ∀ ab, above = some ab → ∀ j, j < w → (out0.getD (off + (lastLine + j * 4)) 0).toNat = ab.getD j 0

/-- the part of the row written so far holds `acc`; nothing else has changed -/
structure LInv (off base w : Nat) (out0 out : Array UInt8) (acc : List Nat) : Prop where
  size : out.size = out0.size
  vals : ∀ j, j < acc.length → (out.getD (off + (base + j * 4)) 0).toNat = acc.getD j 0
  frame : ∀ p, (∀ j, j < w → p ≠ off + (base + j * 4)) → out.getD p 0 = out0.getD p 0

theorem pput_inv {off base w : Nat} {out0 : Array UInt8} {s : PSt} {acc : List Nat}
    (hinv : LInv off base w out0 s.out acc) (hlt : acc.length < w)
    (hb : off + (base + acc.length * 4) < s.out.size) (v : UInt8) :
    ∃ s', pput s off (base + acc.length * 4) v = .ok s' ∧ s'.pos = s.pos ∧
      LInv off base w out0 s'.out (acc ++ [v.toNat]) := by
  unfold pput
  rw [if_pos hb]
  refine ⟨_, rfl, rfl, ?_⟩
  constructor
  · simp [hinv.size]
  · intro j hj
    simp only [List.length_append, List.length_singleton] at hj
    show ((s.out.setIfInBounds _ v).getD _ 0).toNat = _
    rw [getD_set _ _ _ _ hb]
    by_cases e : j = acc.length
    · subst e; simp
    · have hj' : j < acc.length := by omega
      rw [if_neg (by omega), hinv.vals j hj']
      simp [List.getD_eq_getElem?_getD, List.getElem?_append_left hj']
  · intro p hp
    show (s.out.setIfInBounds _ v).getD _ 0 = _
    rw [getD_set _ _ _ _ hb, if_neg (hp _ hlt)]
    exact hinv.frame p hp

theorem pget_above {off base lastLine w : Nat} {first : Bool} {above : Option (List Nat)} {out0 : Array UInt8}
    {s : PSt} {acc ab : List Nat}
    (hg : Geom off base lastLine w first above out0) (hinv : LInv off base w out0 s.out acc)
    (hab : above = some ab) (hlt : acc.length < w) :
    ∃ a, pget s off (lastLine + acc.length * 4) = .ok a ∧ a.toNat = ab.getD acc.length 0 := by
  have hf : first = false := by
    cases first with
    | false => rfl
    | true => have := hg.firstIff.mp rfl; rw [hab] at this; cases this
  have ⟨h1, h2⟩ := hg.lastle hf
  have hoff := hg.offle
  unfold pget
  have hb : off + (lastLine + acc.length * 4) < s.out.size := by rw [hinv.size]; omega
  rw [dif_pos hb]
  refine ⟨_, rfl, ?_⟩
  have := hg.ab ab hab acc.length hlt
  rw [← this, ← hinv.frame _ (by intro j hj; omega)]
  simp [Array.getD_eq_getD_getElem?, hb]


/-- the port's running colour (a byte) and the reference's running delta (an integer) -/
def CRel (first : Bool) (color : UInt8) (d : Int) : Prop :=
  (color.toNat : Int) = d % 256 ∧ (first = true → 0 ≤ d)

theorem deltaColor_spec_nat : ∀ n, n < 256 → ((deltaColor (UInt8.ofNat n)).toNat : Int) = deltaOf n % 256 := by
  decide +kernel

theorem deltaColor_spec (x : UInt8) : ((deltaColor x).toNat : Int) = deltaOf x.toNat % 256 := by
  have := deltaColor_spec_nat x.toNat x.toNat_lt
  simpa using this

theorem put_first {off base lastLine w : Nat} {above : Option (List Nat)} {out0 : Array UInt8}
    {s : PSt} {acc : List Nat} {color : UInt8} {d : Int}
    (hg : Geom off base lastLine w true above out0) (hinv : LInv off base w out0 s.out acc)
    (hlt : acc.length < w) (hc : CRel true color d) :
    ∃ s', pput s off (base + acc.length * 4) color = .ok s' ∧ s'.pos = s.pos ∧
      LInv off base w out0 s'.out (emit above acc d) := by
  have hb : off + (base + acc.length * 4) < s.out.size := by
    have := hg.offle; have := hg.basele; rw [hinv.size]; omega
  obtain ⟨s', h1, h2, h3⟩ := pput_inv hinv hlt hb color
  refine ⟨s', h1, h2, ?_⟩
  have ha : above = none := hg.firstIff.mp rfl
  have : emit above acc d = acc ++ [color.toNat] := by
    rw [ha]; unfold emit
    have h0 := hc.2 rfl
    have h1 := hc.1
    have hl := color.toNat_lt
    have e : d.toNat % 256 = color.toNat := by omega
    show acc ++ [d.toNat % 256] = _
    rw [e]
  rw [this]; exact h3

theorem put_delta {off base lastLine w : Nat} {above : Option (List Nat)} {out0 : Array UInt8}
    {s : PSt} {acc : List Nat} {color : UInt8} {d : Int}
    (hg : Geom off base lastLine w false above out0) (hinv : LInv off base w out0 s.out acc)
    (hlt : acc.length < w) (hc : CRel false color d) :
    ∃ a s', pget s off (lastLine + acc.length * 4) = .ok a ∧
      pput s off (base + acc.length * 4) (a + color) = .ok s' ∧ s'.pos = s.pos ∧
      LInv off base w out0 s'.out (emit above acc d) := by
  have hb : off + (base + acc.length * 4) < s.out.size := by
    have := hg.offle; have := hg.basele; rw [hinv.size]; omega
  obtain ⟨ab, hab⟩ : ∃ ab, above = some ab := by
    cases h : above with
    | none => have := hg.firstIff.mpr h; cases this
    | some ab => exact ⟨ab, rfl⟩
  obtain ⟨a, ha1, ha2⟩ := pget_above hg hinv hab hlt
  obtain ⟨s', h1, h2, h3⟩ := pput_inv hinv hlt hb (a + color)
  refine ⟨a, s', ha1, h1, h2, ?_⟩
  have : emit above acc d = acc ++ [(a + color).toNat] := by
    rw [hab]; unfold emit
    have h1 := hc.1
    have hl := color.toNat_lt
    have hla := a.toNat_lt
    show acc ++ [((((ab.getD acc.length 0 : Nat) : Int) + d).emod 256).toNat] = _
    rw [← ha2, UInt8.toNat_add]
    have e : ((((a.toNat : Nat) : Int) + d).emod 256).toNat = (a.toNat + color.toNat) % 2 ^ 8 := by
      show ((((a.toNat : Nat) : Int) + d) % 256).toNat = _
      omega
    rw [e]
  rw [this]; exact h3


theorem rdU8_ok (inp : Input) (s : PSt) (h : s.pos < inp.size) :
    rdU8 inp s = .ok (inp[s.pos], { s with pos := s.pos + 1 }) := by
  unfold rdU8; rw [dif_pos h]

theorem drop_take_succ (l : List UInt8) (i n : Nat) (h : i < l.length) :
    (l.drop i).take (n + 1) = l[i] :: (l.drop (i + 1)).take n := by
  rw [List.drop_eq_getElem_cons h, List.take_succ_cons]

theorem crel_first (x : UInt8) : CRel true x (x.toNat : Int) := by
  have := x.toNat_lt
  exact ⟨by omega, fun _ => by omega⟩

theorem crel_delta (x : UInt8) : CRel false (deltaColor x) (deltaOf x.toNat) :=
  ⟨deltaColor_spec x, fun h => by cases h⟩

theorem colRun_ref (inp : Input) {off base lastLine w : Nat} {first : Bool} {above : Option (List Nat)}
    {out0 : Array UInt8} (hg : Geom off base lastLine w first above out0)
    (n : Nat) (s : PSt) (acc : List Nat) (color : UInt8) (last : Int)
    (hinv : LInv off base w out0 s.out acc) (hn : acc.length + n ≤ w) (hsrc : s.pos + n ≤ inp.size)
    (hc : CRel first color last) :
    ∃ s' color',
      colRun inp off lastLine first n s (base + acc.length * 4) acc.length color
        = .ok (s', base + (acc.length + n) * 4, acc.length + n, color') ∧
      s'.pos = s.pos + n ∧
      LInv off base w out0 s'.out (rawsGo above (((inp.toList.drop s.pos).take n).map UInt8.toNat) acc last).1 ∧
      CRel first color' (rawsGo above (((inp.toList.drop s.pos).take n).map UInt8.toNat) acc last).2 := by
  induction n generalizing s acc color last with
  | zero => exact ⟨s, color, by simp [colRun], rfl, by simpa [rawsGo] using hinv, by simpa [rawsGo] using hc⟩
  | succ n ih =>
    have hp : s.pos < inp.size := by omega
    have hpl : s.pos < inp.toList.length := by simpa using hp
    have hlt : acc.length < w := by omega
    unfold colRun
    rw [rdU8_ok inp s hp, Outcome.bind_ok, drop_take_succ _ _ _ hpl]
    simp only [List.map_cons, rawsGo, Array.getElem_toList]
    generalize hx : inp[s.pos] = x
    cases first with
    | true =>
      have ha : above = none := hg.firstIff.mp rfl
      simp only [if_true]
      obtain ⟨s2, e1, e2, e3⟩ := put_first (s := { s with pos := s.pos + 1 }) hg hinv hlt (crel_first x)
      rw [e1, Outcome.bind_ok]
      have hl := emit_length above acc (x.toNat : Int)
      have := ih s2 (emit above acc (x.toNat : Int)) x (x.toNat : Int) e3 (by omega) (by rw [e2]; show s.pos + 1 + n ≤ inp.size; omega) (crel_first x)
      obtain ⟨s', c', g1, g2, g3, g4⟩ := this
      rw [hl] at g1
      have e2' : s2.pos = s.pos + 1 := by rw [e2]
      rw [e2'] at g2 g3 g4
      refine ⟨s', c', ?_, by omega, ?_, ?_⟩
      · rw [show base + acc.length * 4 + 4 = base + (acc.length + 1) * 4 by omega, g1,
          show acc.length + 1 + n = acc.length + (n + 1) by omega]
      · subst ha; exact g3
      · subst ha; exact g4
    | false =>
      obtain ⟨ab, hab⟩ : ∃ ab, above = some ab := by
        cases h : above with
        | none => have := hg.firstIff.mpr h; cases this
        | some ab => exact ⟨ab, rfl⟩
      simp only [Bool.false_eq_true, if_false]
      obtain ⟨a, s2, e0, e1, e2, e3⟩ := put_delta (s := { s with pos := s.pos + 1 }) hg hinv hlt (crel_delta x)
      rw [e0, Outcome.bind_ok, e1, Outcome.bind_ok]
      have hl := emit_length above acc (deltaOf x.toNat)
      have := ih s2 (emit above acc (deltaOf x.toNat)) (deltaColor x) (deltaOf x.toNat) e3 (by omega) (by rw [e2]; show s.pos + 1 + n ≤ inp.size; omega) (crel_delta x)
      obtain ⟨s', c', g1, g2, g3, g4⟩ := this
      rw [hl] at g1
      have e2' : s2.pos = s.pos + 1 := by rw [e2]
      rw [e2'] at g2 g3 g4
      refine ⟨s', c', ?_, by omega, ?_, ?_⟩
      · rw [show base + acc.length * 4 + 4 = base + (acc.length + 1) * 4 by omega, g1,
          show acc.length + 1 + n = acc.length + (n + 1) by omega]
      · subst hab; exact g3
      · subst hab; exact g4


theorem repRun_ref {off base lastLine w : Nat} {first : Bool} {above : Option (List Nat)}
    {out0 : Array UInt8} (hg : Geom off base lastLine w first above out0)
    (n : Nat) (s : PSt) (acc : List Nat) (color : UInt8) (last : Int)
    (hinv : LInv off base w out0 s.out acc) (hn : acc.length + n ≤ w) (hc : CRel first color last) :
    ∃ s',
      repRun off lastLine first n s (base + acc.length * 4) acc.length color
        = .ok (s', base + (acc.length + n) * 4, acc.length + n) ∧
      s'.pos = s.pos ∧ LInv off base w out0 s'.out (runGo above last n acc) := by
  induction n generalizing s acc with
  | zero => exact ⟨s, by simp [repRun], rfl, by simpa [runGo] using hinv⟩
  | succ n ih =>
    have hlt : acc.length < w := by omega
    unfold repRun
    simp only [runGo]
    have hl := emit_length above acc last
    cases first with
    | true =>
      simp only [if_true]
      obtain ⟨s2, e1, e2, e3⟩ := put_first hg hinv hlt hc
      rw [e1, Outcome.bind_ok]
      obtain ⟨s', g1, g2, g3⟩ := ih s2 (emit above acc last) e3 (by omega)
      rw [hl] at g1
      refine ⟨s', ?_, by omega, g3⟩
      rw [show base + acc.length * 4 + 4 = base + (acc.length + 1) * 4 by omega, g1,
        show acc.length + 1 + n = acc.length + (n + 1) by omega]
    | false =>
      simp only [Bool.false_eq_true, if_false]
      obtain ⟨a, s2, e0, e1, e2, e3⟩ := put_delta hg hinv hlt hc
      rw [e0, Outcome.bind_ok, e1, Outcome.bind_ok]
      obtain ⟨s', g1, g2, g3⟩ := ih s2 (emit above acc last) e3 (by omega)
      rw [hl] at g1
      refine ⟨s', ?_, by omega, g3⟩
      rw [show base + acc.length * 4 + 4 = base + (acc.length + 1) * 4 by omega, g1,
        show acc.length + 1 + n = acc.length + (n + 1) by omega]


/-- the port's reading of a code byte: (replen, collen) -/
def portLens (code : Nat) : Nat × Nat :=
  let replen0 := code &&& 0xf
  let collen0 := (code >>> 4) &&& 0xf
  let revcode := (replen0 <<< 4) ||| collen0
  if revcode ≤ 47 ∧ revcode ≥ 16 then (revcode, 0) else (replen0, collen0)

theorem lens_eq : ∀ n, n < 256 → portLens n = ctrlLens n := by decide +kernel

theorem scanline_unfold (inp : Input) (off w lastLine : Nat) (first : Bool) (f : Nat) (s : PSt)
    (out indexw : Nat) (color : UInt8) (hlt : indexw < w) (hp : s.pos < inp.size) :
    scanline inp off w lastLine first (f + 1) s out indexw color =
      (let s1 : PSt := { s with pos := s.pos + 1 }
       let (replen, collen) := portLens inp[s.pos].toNat
       if indexw + collen + replen > w then .err "run crosses the end of the scanline"
       else
         (colRun inp off lastLine first collen s1 out indexw color).bind fun (s, out, indexw, color) =>
         (repRun off lastLine first replen s out indexw color).bind fun (s, out, indexw) =>
           scanline inp off w lastLine first f s out indexw color) := by
  conv => lhs; unfold scanline
  rw [if_pos hlt, rdU8_ok inp s hp, Outcome.bind_ok]
  rfl

theorem planeLine_some_le {w : Nat} {above : Option (List Nat)} {rf : Nat} {acc : List Nat} {last : Int}
    {src : Bytes} {res : List Nat × Bytes} (h : planeLine w above rf acc last src = some res) :
    acc.length ≤ w := by
  cases rf with
  | zero => simp [planeLine] at h
  | succ rf =>
    unfold planeLine at h
    by_cases e : acc.length = w
    · omega
    · rw [if_neg e] at h
      by_cases g : acc.length > w
      · rw [if_pos g] at h; cases h
      · omega


theorem scanline_ref (inp : Input) {off base lastLine w : Nat} {first : Bool} {above : Option (List Nat)}
    {out0 : Array UInt8} (hg : Geom off base lastLine w first above out0) (rf : Nat) :
    ∀ (f : Nat) (s : PSt) (acc : List Nat) (color : UInt8) (last : Int) (line : List Nat) (r : Bytes),
      LInv off base w out0 s.out acc → CRel first color last → inp.size - s.pos < f → s.pos ≤ inp.size →
      planeLine w above rf acc last (inp.toList.drop s.pos) = some (line, r) →
      ∃ s', scanline inp off w lastLine first f s (base + acc.length * 4) acc.length color = .ok s' ∧
        LInv off base w out0 s'.out line ∧ line.length = w ∧ r = inp.toList.drop s'.pos ∧ s'.pos ≤ inp.size := by
  induction rf with
  | zero => intro f s acc color last line r _ _ _ _ h; simp [planeLine] at h
  | succ rf ih =>
    intro f s acc color last line r hinv hc hf hpos href
    obtain ⟨f, rfl⟩ : ∃ f', f = f' + 1 := ⟨f - 1, by omega⟩
    unfold planeLine at href
    by_cases e : acc.length = w
    · rw [if_pos e] at href
      cases href
      refine ⟨s, ?_, hinv, e, rfl, hpos⟩
      unfold scanline; rw [if_neg (by omega)]
    · rw [if_neg e] at href
      by_cases g : acc.length > w
      · rw [if_pos g] at href; cases href
      · rw [if_neg g] at href
        have hlt : acc.length < w := by omega
        by_cases hp : s.pos < inp.size
        · have hpl : s.pos < inp.toList.length := by simpa using hp
          rw [List.drop_eq_getElem_cons hpl] at href
          simp only [Array.getElem_toList] at href
          rw [scanline_unfold inp off w lastLine first f s _ _ color hlt hp]
          rw [lens_eq _ inp[s.pos].toNat_lt]
          rcases hL : ctrlLens inp[s.pos].toNat with ⟨nRun, cRaw⟩
          rw [hL] at href
          simp only at href ⊢
          by_cases hr : (inp.toList.drop (s.pos + 1)).length < cRaw
          · rw [if_pos hr] at href; cases href
          · rw [if_neg hr] at href
            have hraw : s.pos + 1 + cRaw ≤ inp.size := by
              simp only [List.length_drop, Array.length_toList] at hr; omega
            obtain ⟨s2, c2, e1, e2, e3, e4⟩ :=
              colRun_ref inp hg cRaw { s with pos := s.pos + 1 } acc color last hinv
                (by
                  have := planeLine_some_le href
                  rw [runGo_length, rawsGo_length] at this
                  simp only [List.length_map, List.length_take, List.length_drop, Array.length_toList] at this
                  omega)
                hraw hc
            have e2' : s2.pos = s.pos + 1 + cRaw := e2
            have hle := planeLine_some_le href
            rw [runGo_length, rawsGo_length] at hle
            simp only [List.length_map, List.length_take, List.length_drop, Array.length_toList] at hle
            have hmin : min cRaw (inp.size - (s.pos + 1)) = cRaw := by omega
            rw [hmin] at hle
            rw [if_neg (by omega), e1, Outcome.bind_ok]
            simp only
            generalize hraws : rawsGo above (List.map UInt8.toNat (List.take cRaw (List.drop (s.pos + 1) inp.toList))) acc last = rg at href e3 e4
            obtain ⟨acc1, last1⟩ := rg
            have hl1 : acc1.length = acc.length + cRaw := by
              have := rawsGo_length above (List.map UInt8.toNat (List.take cRaw (List.drop (s.pos + 1) inp.toList))) acc last
              rw [hraws] at this
              simp only [List.length_map, List.length_take, List.length_drop, Array.length_toList] at this
              omega
            simp only at href e3 e4
            obtain ⟨s3, k1, k2, k3⟩ := repRun_ref hg nRun s2 acc1 c2 last1 e3 (by omega) e4
            rw [← hl1, k1, Outcome.bind_ok]
            simp only
            have hl2 := runGo_length above last1 nRun acc1
            rw [List.drop_drop] at href
            have hpos3 : s3.pos = s.pos + 1 + cRaw := by omega
            rw [← hpos3] at href
            have := ih f s3 (runGo above last1 nRun acc1) c2 last1 line r k3 e4 (by omega) (by omega) href
            rw [hl2] at this
            exact this
        · have : inp.toList.drop s.pos = [] := by
            apply List.drop_eq_nil_of_le; simp; omega
          rw [this] at href; cases href


/-! ### one plane -/

/-- byte offset of stream row `i` (the image is stored top-down, the stream is bottom-up) -/
def rowBase (w h i : Nat) : Nat := w * h * 4 - (i + 1) * w * 4

theorem rowBase_eq (w h i : Nat) : rowBase w h i = (h - 1 - i) * (w * 4) := by
  unfold rowBase
  rw [Nat.mul_comm w h, Nat.mul_assoc h w 4, Nat.mul_assoc (i + 1) w 4, ← Nat.sub_mul]
  congr 1; omega

theorem rowBase_top (w h i : Nat) (hi : i < h) : rowBase w h i + w * 4 ≤ w * h * 4 := by
  rw [rowBase_eq, Nat.mul_comm w h, Nat.mul_assoc h w 4, ← Nat.succ_mul]
  exact Nat.mul_le_mul_right _ (by omega)

theorem rowBase_lt (w h i i' : Nat) (hi : i < i') (hi' : i' < h) : rowBase w h i' + w * 4 ≤ rowBase w h i := by
  rw [rowBase_eq, rowBase_eq, ← Nat.succ_mul]
  exact Nat.mul_le_mul_right _ (by omega)

theorem rowBase_mod (w h i : Nat) : rowBase w h i % 4 = 0 := by
  rw [rowBase_eq, ← Nat.mul_assoc]; exact Nat.mul_mod_left _ _

/-- the rows decoded so far sit in their places; nothing outside this plane has changed -/
structure PInv (off w h : Nat) (out0 out : Array UInt8) (rows : List (List Nat)) : Prop where
  size : out.size = out0.size
  vals : ∀ i j, i < rows.length → j < w →
    (out.getD (off + (rowBase w h i + j * 4)) 0).toNat = (rows.getD i []).getD j 0
  frame : ∀ p, p % 4 ≠ off → out.getD p 0 = out0.getD p 0


theorem rowBase_cond (w h i : Nat) (hi : i < h) : (i + 1) * w * 4 ≤ w * h * 4 := by
  rw [Nat.mul_comm w h, Nat.mul_assoc h w 4, Nat.mul_assoc (i + 1) w 4]
  exact Nat.mul_le_mul_right _ (by omega)

theorem planeRows_unfold (inp : Input) (off w h n indexh lastLine : Nat) (s : PSt) (hi : indexh < h) :
    planeRows inp off w h (n + 1) indexh lastLine s =
      (scanline inp off w lastLine (lastLine = 0) (inp.size + w + 1) s (rowBase w h indexh) 0 0).bind fun s =>
        planeRows inp off w h n (indexh + 1) (rowBase w h indexh) s := by
  conv => lhs; unfold planeRows
  unfold checkedSub
  rw [if_pos (rowBase_cond w h indexh hi)]
  rfl

theorem planeRows_ref (inp : Input) {off w h : Nat} (hoff : off ≤ 3) (hw : 0 < w) (out0 : Array UInt8)
    (hsz : out0.size = w * h * 4) (n : Nat) :
    ∀ (s : PSt) (acc : List (List Nat)) (above : Option (List Nat)) (lastLine : Nat)
      (res : List (List Nat)) (r : Bytes),
      acc.length + n = h →
      PInv off w h out0 s.out acc.reverse →
      ((acc.length = 0 ∧ above = none ∧ lastLine = 0) ∨
        (∃ l, 1 ≤ acc.length ∧ above = some l ∧ lastLine = rowBase w h (acc.length - 1) ∧
          ∀ j, j < w → (s.out.getD (off + (lastLine + j * 4)) 0).toNat = l.getD j 0)) →
      s.pos ≤ inp.size →
      planeRowsRef w n above acc (inp.toList.drop s.pos) = some (res, r) →
      ∃ s', planeRows inp off w h n acc.length lastLine s = .ok s' ∧
        PInv off w h out0 s'.out res ∧ res.length = h ∧ r = inp.toList.drop s'.pos ∧ s'.pos ≤ inp.size := by
  induction n with
  | zero =>
    intro s acc above lastLine res r hlen hinv _ hpos href
    simp only [planeRowsRef, Option.some.injEq, Prod.mk.injEq] at href
    obtain ⟨rfl, rfl⟩ := href
    exact ⟨s, by simp [planeRows], hinv, by simpa using hlen, rfl, hpos⟩
  | succ n ih =>
    intro s acc above lastLine res r hlen hinv hab hpos href
    have hk : acc.length < h := by omega
    unfold planeRowsRef at href
    split at href
    · rename_i line r1 hline
      rw [planeRows_unfold inp off w h n acc.length lastLine s hk]
      have hsize : s.out.size = w * h * 4 := by rw [hinv.size, hsz]
      have hg : Geom off (rowBase w h acc.length) lastLine w (decide (lastLine = 0)) above s.out := by
        constructor
        · exact hoff
        · rw [hsize]; exact rowBase_top w h _ hk
        · rcases hab with ⟨_, ha, hl⟩ | ⟨l, h1, ha, hl, _⟩
          · simp [ha, hl]
          · have := rowBase_lt w h (acc.length - 1) acc.length (by omega) hk
            have hne : lastLine ≠ 0 := by omega
            simp [ha, hne]
        · intro hf
          rcases hab with ⟨_, ha, hl⟩ | ⟨l, h1, ha, hl, _⟩
          · simp [hl] at hf
          · have := rowBase_lt w h (acc.length - 1) acc.length (by omega) hk
            have := rowBase_top w h (acc.length - 1) (by omega)
            rw [hsize]; omega
        · intro ab hab'
          rcases hab with ⟨_, ha, hl⟩ | ⟨l, h1, ha, hl, hv⟩
          · rw [ha] at hab'; cases hab'
          · rw [ha] at hab'; cases hab'; exact hv
      have hinv0 : LInv off (rowBase w h acc.length) w s.out s.out [] :=
        ⟨rfl, fun j hj => by simp at hj, fun _ _ => rfl⟩
      have hc0 : CRel (decide (lastLine = 0)) 0 0 := ⟨by decide, fun _ => Int.le_refl 0⟩
      obtain ⟨s1, e1, e2, e3, e4, e5⟩ :=
        scanline_ref inp hg _ (inp.size + w + 1) s [] 0 0 line r1 hinv0 hc0 (by omega) hpos hline
      have e1' : scanline inp off w lastLine (decide (lastLine = 0)) (inp.size + w + 1) s
          (rowBase w h acc.length) 0 0 = .ok s1 := by simpa using e1
      rw [e1', Outcome.bind_ok]
      have hinv1 : PInv off w h out0 s1.out (line :: acc).reverse := by
        constructor
        · rw [e2.size, hinv.size]
        · intro i j hi hj
          simp only [List.reverse_cons, List.length_append, List.length_reverse, List.length_singleton] at hi
          by_cases hik : i = acc.length
          · subst hik
            rw [e2.vals j (by omega)]
            simp [List.getD_eq_getElem?_getD]
          · have hi' : i < acc.length := by omega
            have hd := rowBase_lt w h i acc.length hi' hk
            rw [e2.frame _ (by intro j' hj'; omega)]
            have := hinv.vals i j (by simpa using hi') hj
            rw [this]
            simp [List.getD_eq_getElem?_getD, List.getElem?_append_left, hi']
        · intro p hp
          have hm := rowBase_mod w h acc.length
          rw [e2.frame p (by intro j hj; omega)]
          exact hinv.frame p hp
      have := ih s1 (line :: acc) (some line) (rowBase w h acc.length) res r
        (by simp only [List.length_cons]; omega) hinv1
        (Or.inr ⟨line, by simp, rfl, by simp, fun j hj => by rw [e2.vals j (by omega)]⟩)
        e5 (by rw [← e4]; exact href)
      simpa using this
    · cases href


theorem processPlane_ref (inp : Input) {off w h : Nat} (hoff : off ≤ 3) (hw : 0 < w) (s : PSt)
    (hsz : s.out.size = w * h * 4) (hpos : s.pos ≤ inp.size) (res : List (List Nat)) (r : Bytes)
    (href : planeRowsRef w h none [] (inp.toList.drop s.pos) = some (res, r)) :
    ∃ s', processPlane inp off w h s = .ok s' ∧ PInv off w h s.out s'.out res ∧ res.length = h ∧
      r = inp.toList.drop s'.pos ∧ s'.pos ≤ inp.size := by
  have hinv : PInv off w h s.out s.out ([] : List (List Nat)).reverse :=
    ⟨rfl, fun i j hi _ => by simp at hi, fun _ _ => rfl⟩
  have := planeRows_ref inp hoff hw s.out hsz h s [] none 0 res r (by simp) hinv
    (Or.inl ⟨rfl, rfl, rfl⟩) hpos href
  simpa [processPlane] using this

theorem rle32_ref (w h : Nat) (src : Bytes) (A R G B : List (List Nat)) (hw : 0 < w) (hh : 0 < h)
    (out0 : Array UInt8) (hsz : out0.size = w * h * 4)
    (href : planarDecode w h src = some (A, R, G, B)) :
    ∃ out, rle32 src.toArray w h out0 = .ok out ∧ out.size = w * h * 4 ∧
      ∀ i j, i < h → j < w →
        (out.getD (rowBase w h i + j * 4) 0).toNat = (B.getD i []).getD j 0 ∧
        (out.getD (1 + (rowBase w h i + j * 4)) 0).toNat = (G.getD i []).getD j 0 ∧
        (out.getD (2 + (rowBase w h i + j * 4)) 0).toNat = (R.getD i []).getD j 0 ∧
        (out.getD (3 + (rowBase w h i + j * 4)) 0).toNat = (A.getD i []).getD j 0 := by
  unfold planarDecode at href
  cases src with
  | nil => cases href
  | cons hdr r0 =>
    simp only at href
    by_cases hh0 : hdr = 0x10
    · subst hh0
      simp only [ne_eq, not_true_eq_false, if_false] at href
      generalize hinp : ((0x10 : UInt8) :: r0).toArray = inp
      have hl : inp.toList = 0x10 :: r0 := by rw [← hinp]
      have hsize : inp.size = r0.length + 1 := by rw [← hinp]; simp
      have hd1 : r0 = inp.toList.drop 1 := by rw [hl]; rfl
      cases hA : planeRowsRef w h none [] r0 with
      | none => rw [hA] at href; cases href
      | some pa =>
        obtain ⟨a, r1⟩ := pa
        rw [hA] at href; simp only [Option.bind_some] at href
        cases hR : planeRowsRef w h none [] r1 with
        | none => rw [hR] at href; cases href
        | some pr =>
          obtain ⟨rd, r2⟩ := pr
          rw [hR] at href; simp only [Option.bind_some] at href
          cases hG : planeRowsRef w h none [] r2 with
          | none => rw [hG] at href; cases href
          | some pg =>
            obtain ⟨g, r3⟩ := pg
            rw [hG] at href; simp only [Option.bind_some] at href
            cases hB : planeRowsRef w h none [] r3 with
            | none => rw [hB] at href; cases href
            | some pb =>
              obtain ⟨b, r4⟩ := pb
              rw [hB] at href; simp only [Option.bind_some, Option.some.injEq, Prod.mk.injEq] at href
              obtain ⟨rfl, rfl, rfl, rfl⟩ := href
              have h4 : 4 ≤ w * h * 4 := by
                have : 1 ≤ w * h := Nat.mul_pos hw hh
                omega
              let s0 : PSt := ⟨1, out0⟩
              rw [hd1] at hA
              obtain ⟨s1, p1, i1, l1, d1, q1⟩ := processPlane_ref inp (off := 3) (by omega) hw s0 hsz (by show 1 ≤ inp.size; omega) _ _ hA
              rw [d1] at hR
              obtain ⟨s2, p2, i2, l2, d2, q2⟩ := processPlane_ref inp (off := 2) (by omega) hw s1 (by rw [i1.size]; exact hsz) q1 _ _ hR
              rw [d2] at hG
              obtain ⟨s3, p3, i3, l3, d3, q3⟩ := processPlane_ref inp (off := 1) (by omega) hw s2 (by rw [i2.size, i1.size]; exact hsz) q2 _ _ hG
              rw [d3] at hB
              obtain ⟨s4, p4, i4, l4, d4, q4⟩ := processPlane_ref inp (off := 0) (by omega) hw s3 (by rw [i3.size, i2.size, i1.size]; exact hsz) q3 _ _ hB
              refine ⟨s4.out, ?_, by rw [i4.size, i3.size, i2.size, i1.size]; exact hsz, ?_⟩
              · unfold rle32
                rw [if_neg (by omega), rdU8_ok inp ⟨0, out0⟩ (by show 0 < inp.size; omega), Outcome.bind_ok]
                have hhdr : inp[0]'(by omega) = 0x10 := by
                  have : inp.toList[0]'(by simp; omega) = 0x10 := by simp [hl]
                  simpa using this
                simp only [hhdr, ne_eq, not_true_eq_false, if_false]
                rw [if_neg (by show ¬ out0.size < 3; omega)]
                show (processPlane inp 3 w h s0).bind _ = _
                rw [p1, Outcome.bind_ok, p2, Outcome.bind_ok, p3, Outcome.bind_ok, p4, Outcome.bind_ok]
              · intro i j hi hj
                have hm := rowBase_mod w h i
                refine ⟨?_, ?_, ?_, ?_⟩
                · have := i4.vals i j (by omega) hj
                  simpa using this
                · rw [i4.frame _ (by omega)]
                  exact i3.vals i j (by omega) hj
                · rw [i4.frame _ (by omega), i3.frame _ (by omega)]
                  exact i2.vals i j (by omega) hj
                · rw [i4.frame _ (by omega), i3.frame _ (by omega), i2.frame _ (by omega)]
                  exact i1.vals i j (by omega) hj
    · rw [if_pos hh0] at href; cases href


end Rdp.Codec
