import RdpModel.Lemmas.Rle16Orders2
import RdpModel.Codec.Decompress
/-
  The whole stream: the reference decoder's loop simulated by the port's, and the output
  buffer read back as rows top-down.
-/
namespace Rdp.Rle16
open Rdp Rdp.Spec.Bitmap

/-- every order of the stream is of a kind covered by `order_sim` -/
def supportedLoop (w cap : Nat) : Nat → DState → Bytes → Bool
  | 0, _, _ => true
  | fuel+1, s, src =>
    match src with
    | [] => true
    | _ =>
      (match parseHeader src with | some (k, _, _) => supported k | none => true) &&
      match stepOrder w cap s src with
      | some (s', src') => if src'.length < src.length then supportedLoop w cap fuel s' src' else true
      | none => true

theorem srcOf_length (inp : Input) (p : Nat) : (srcOf inp p).length = inp.size - p := by
  simp [srcOf]

/-- **The order loop.** -/
theorem orders_sim {inp : Input} {w h0 : Nat} (hw : 0 < w) (fuel : Nat) :
    ∀ {s : St} {d dfin : DState} {src : Bytes}, Rel inp w h0 s d src →
      decodeLoop w (w * h0) fuel d src = some dfin →
      noFirstLineCrossingLoop w (w * h0) fuel d src = true →
      supportedLoop w (w * h0) fuel d src = true →
      ∀ G, src.length < G → ∃ sfin, orders inp w h0 G s = .ok sfin ∧ Rel inp w h0 sfin dfin [] := by
  induction fuel with
  | zero => intro s d dfin src _ hdec; simp [decodeLoop] at hdec
  | succ fuel ih =>
    intro s d dfin src r hdec hnc hsup G hG
    cases G with
    | zero => omega
    | succ G =>
    cases src with
    | nil =>
      simp only [decodeLoop, Option.some.injEq] at hdec
      subst hdec
      have hl := srcOf_length inp s.pos
      rw [r.src] at hl
      simp only [List.length_nil] at hl
      refine ⟨s, ?_, r⟩
      unfold orders
      have : ¬ s.pos < inp.size := by omega
      simp [this]
    | cons b rest =>
      obtain ⟨hp, _, _⟩ := srcOf_cons r.src
      simp only [decodeLoop] at hdec
      simp only [noFirstLineCrossingLoop] at hnc
      simp only [supportedLoop] at hsup
      cases hstep : stepOrder w (w * h0) d (b :: rest) with
      | none => rw [hstep] at hdec; cases hdec
      | some ds =>
        obtain ⟨d', src'⟩ := ds
        rw [hstep] at hdec hnc hsup
        simp only at hdec hnc hsup
        by_cases hlt : src'.length < (b :: rest).length
        · simp only [hlt, if_true] at hdec hsup
          by_cases hcross : d.dest.length < w ∧ w < d'.dest.length
          · simp [hcross] at hnc
          · simp only [hcross, if_false, hlt, if_true] at hnc
            have hsk : ∀ k run rst, parseHeader (b :: rest) = some (k, run, rst) → supported k = true := by
              intro k run rst hph
              rw [hph] at hsup
              simp only [Bool.and_eq_true] at hsup
              exact hsup.1
            obtain ⟨s', hs', r'⟩ := order_sim r hw hstep (by simp) hcross hsk
            have hsup' : supportedLoop w (w * h0) fuel d' src' = true := by
              simp only [Bool.and_eq_true] at hsup; exact hsup.2
            obtain ⟨sfin, hfin, rfin⟩ := ih r' hdec hnc hsup' G (by simp only [List.length_cons] at hlt hG; omega)
            refine ⟨sfin, ?_, rfin⟩
            unfold orders
            simp only [hp, if_true, hs', Outcome.bind_ok]
            exact hfin
        · rw [if_neg hlt] at hdec; cases hdec

/-- **The order loop, every order kind.** -/
theorem orders_sim_all {inp : Input} {w h0 : Nat} (hw : 0 < w) (fuel : Nat) :
    ∀ {s : St} {d dfin : DState} {src : Bytes}, Rel inp w h0 s d src →
      decodeLoop w (w * h0) fuel d src = some dfin →
      noFirstLineCrossingLoop w (w * h0) fuel d src = true →
      ∀ G, src.length < G → ∃ sfin, orders inp w h0 G s = .ok sfin ∧ Rel inp w h0 sfin dfin [] := by
  induction fuel with
  | zero => intro s d dfin src _ hdec; simp [decodeLoop] at hdec
  | succ fuel ih =>
    intro s d dfin src r hdec hnc G hG
    cases G with
    | zero => omega
    | succ G =>
    cases src with
    | nil =>
      simp only [decodeLoop, Option.some.injEq] at hdec
      subst hdec
      have hl := srcOf_length inp s.pos
      rw [r.src] at hl
      simp only [List.length_nil] at hl
      refine ⟨s, ?_, r⟩
      unfold orders
      have : ¬ s.pos < inp.size := by omega
      simp [this]
    | cons b rest =>
      obtain ⟨hp, _, _⟩ := srcOf_cons r.src
      simp only [decodeLoop] at hdec
      simp only [noFirstLineCrossingLoop] at hnc
      cases hstep : stepOrder w (w * h0) d (b :: rest) with
      | none => rw [hstep] at hdec; cases hdec
      | some ds =>
        obtain ⟨d', src'⟩ := ds
        rw [hstep] at hdec hnc
        simp only at hdec hnc
        by_cases hlt : src'.length < (b :: rest).length
        · simp only [hlt, if_true] at hdec
          by_cases hcross : d.dest.length < w ∧ w < d'.dest.length
          · simp [hcross] at hnc
          · simp only [hcross, if_false, hlt, if_true] at hnc
            obtain ⟨s', hs', r'⟩ := order_sim_all r hw hstep (by simp) hcross
            obtain ⟨sfin, hfin, rfin⟩ := ih r' hdec hnc G (by simp only [List.length_cons] at hlt hG; omega)
            refine ⟨sfin, ?_, rfin⟩
            unfold orders
            simp only [hp, if_true, hs', Outcome.bind_ok]
            exact hfin
        · rw [if_neg hlt] at hdec; cases hdec

/-- with width 0 the reference decoder accepts only the empty stream -/
theorem rle16Decode_w0 (h : Nat) (src : Bytes) (flat : List Pixel) (href : rle16Decode 0 h src = some flat) :
    src = [] ∧ flat = [] := by
  unfold rle16Decode at href
  cases src with
  | nil => simp [decodeLoop] at href; exact ⟨rfl, href⟩
  | cons b rest =>
    exfalso
    simp only [decodeLoop] at href
    cases hstep : stepOrder 0 (0 * h) ⟨[], WHITE, false, true⟩ (b :: rest) with
    | none => rw [hstep] at href; simp at href
    | some ds =>
      obtain ⟨d', src'⟩ := ds
      obtain ⟨k, f, run, src1, _, _, hrun0, hcap, _⟩ := stepOrder_some hstep
      rw [resetFirst_dest] at hcap
      simp only [List.length_nil, Nat.zero_mul, Nat.zero_add] at hcap
      split at hcap <;> omega

/-! ### reading the buffer back top-down -/

theorem topDown_row {α : Type} (w : Nat) (hw : 0 < w) (A B : List α) (hA : A.length = w) (k : Nat) (hB : B.length = k * w) :
    topDown w (A ++ B) = topDown w B ++ A := by
  unfold topDown
  simp only [Nat.ne_of_gt hw, if_false, List.length_append, hA, hB]
  have h1 : (w + k * w) / w = k + 1 := by
    rw [show w + k * w = (k + 1) * w by rw [Nat.add_mul]; omega, Nat.mul_div_cancel _ hw]
  have h2 : k * w / w = k := Nat.mul_div_cancel _ hw
  rw [h1, h2, List.range_succ_eq_map, List.map_cons, List.map_map, List.reverse_cons, List.flatten_append]
  congr 1
  · congr 2
    apply List.map_congr_left
    intro r _
    simp only [Function.comp]
    rw [show (r + 1) * w = A.length + r * w by rw [hA, Nat.add_mul]; omega, List.drop_append,
      List.drop_eq_nil_of_le (by omega), Nat.add_sub_cancel_left, List.nil_append]
  · simp [hA]

/-- a bottom-up buffer listed in stream order and turned top-down is the buffer itself -/
theorem topDown_cells {α : Type} (g : Nat → α) (w : Nat) (hw : 0 < w) (h : Nat) :
    topDown w ((List.range (w * h)).map fun i => g (cell w h i)) = (List.range (w * h)).map g := by
  induction h with
  | zero => simp [topDown]
  | succ h ih =>
    have hsplit : List.range (w * (h + 1)) = List.range w ++ (List.range (w * h)).map (fun i => w + i) := by
      rw [Nat.mul_succ, Nat.add_comm (w * h) w, List.range_add]
    rw [hsplit, List.map_append, List.map_map]
    have hA : ((List.range w).map fun i => g (cell w (h + 1) i)) = (List.range w).map fun c => g (h * w + c) := by
      apply List.map_congr_left
      intro i hi
      rw [List.mem_range] at hi
      unfold cell
      rw [Nat.div_eq_of_lt hi, Nat.mod_eq_of_lt hi]; simp
    have hB : ((List.range (w * h)).map ((fun i => g (cell w (h + 1) i)) ∘ fun i => w + i))
        = (List.range (w * h)).map fun i => g (cell w h i) := by
      apply List.map_congr_left
      intro i _
      simp only [Function.comp]
      unfold cell
      have e1 : (w + i) / w = i / w + 1 := by
        rw [Nat.add_comm, Nat.add_div_right _ hw]
      have e2 : (w + i) % w = i % w := by rw [Nat.add_comm, Nat.add_mod_right]
      rw [e1, e2]
      congr 3
      omega
    rw [hA, hB, topDown_row w hw _ _ (by simp) h (by simp [Nat.mul_comm]), ih]
    rw [show List.range w ++ List.map (fun i => w + i) (List.range (w * h)) = List.range (w * (h + 1)) from hsplit.symm]
    have hsplit2 : List.range (w * (h + 1)) = List.range (w * h) ++ (List.range w).map (fun c => w * h + c) := by
      rw [Nat.mul_succ, List.range_add]
    rw [hsplit2, List.map_append, List.map_map]
    congr 1
    apply List.map_congr_left
    intro c _
    simp only [Function.comp, Nat.mul_comm]

end Rdp.Rle16
