import RdpModel.Crypto.Hash
/-
  Model of `NTLMv2SecurityInterface` (src/nla/ntlm.rs): gss_wrapex / gss_unwrapex / mac,
  and the MS-NLMP 3.4 specification of SEAL / SIGN with extended session security and key
  exchange, written independently.
-/
namespace Rdp.Nla
open Rdp Rdp.Crypto

structure SecCtx where
  encrypt : Rc4
  decrypt : Rc4
  signKey : Bytes
  verifyKey : Bytes
  seq : Nat

def le32n (n : Nat) : Bytes := encInt .le 4 n

/-- `mac(rc4_handle, signing_key, seq_num, data)` -/
def mac (r : Rc4) (signKey : Bytes) (seq : Nat) (data : Bytes) : Bytes × Rc4 :=
  let sig := hmacMd5 signKey (le32n seq ++ data)
  let (enc, r') := r.process (sig.take 8)
  (le32n 1 ++ enc ++ le32n seq, r')

/-- `gss_wrapex`: seal with the encrypt handle, then sign with the same handle -/
def wrap (c : SecCtx) (data : Bytes) : Outcome (Bytes × SecCtx) :=
  let (ct, r1) := c.encrypt.process data
  let (sig, r2) := mac r1 c.signKey c.seq data
  if c.seq + 1 ≥ 2 ^ 32 then .panic "seq_num overflow"
  else .ok (sig ++ ct, { c with encrypt := r2, seq := c.seq + 1 })

/-- `gss_unwrapex`: the decrypt handle advances even when the checksum is wrong -/
def unwrap (c : SecCtx) (data : Bytes) : Outcome Bytes × SecCtx :=
  if data.length < 16 then (.err "eof", c) else
  if data.take 4 ≠ [1, 0, 0, 0] then (.err "InvalidConst", c) else
  let checksum := (data.drop 4).take 8
  let seq := (data.drop 12).take 4
  let payload := data.drop 16
  let (pt, r1) := c.decrypt.process payload
  let (cs, r2) := r1.process checksum
  let computed := hmacMd5 c.verifyKey (seq ++ pt)
  if cs ≠ computed.take 8 then (.err "InvalidChecksum", { c with decrypt := r2 })
  else (.ok pt, { c with decrypt := r2 })

end Rdp.Nla

namespace Rdp.Spec.Nlmp
open Rdp Rdp.Crypto

/-- MS-NLMP 3.4.3 / 3.4.4 with NTLMSSP_NEGOTIATE_EXTENDED_SESSIONSECURITY and KEY_EXCH:
    SEAL: sealed = RC4(Handle, message);
    MAC:  Version(1) ‖ RC4(Handle, HMAC_MD5(SigningKey, SeqNum ‖ message)[0..7]) ‖ SeqNum;
    SeqNum is incremented after each message.  Output layout of GSS_WrapEx: signature ‖ sealed. -/
def sealMsg (handle : Rc4) (signingKey : Bytes) (seqNum : Nat) (message : Bytes) : Bytes × Rc4 :=
  let (sealed, h1) := handle.process message
  let digest := (hmacMd5 signingKey (encInt .le 4 seqNum ++ message)).take 8
  let (chk, h2) := h1.process digest
  (encInt .le 4 1 ++ chk ++ encInt .le 4 seqNum ++ sealed, h2)

/-- a sequence of messages sealed by one side -/
def sealAll (handle : Rc4) (signingKey : Bytes) : Nat → List Bytes → List Bytes
  | _, [] => []
  | seq, m :: ms =>
    let (out, h) := sealMsg handle signingKey seq m
    out :: sealAll h signingKey (seq + 1) ms

end Rdp.Spec.Nlmp
