import RdpModel.Nla.Ntlm
/-
  Model of src/nla/cssp.rs: the DER encoders of the four TSRequest shapes (yasna writes
  definite minimal lengths) and `cssp_connect` as a function from the environment (NTLM
  inputs, the decoded server replies, the certificate key) to the result and the list of
  writes on the link.  yasna's decoder and the X.509 parser are not modelled: their results
  on the two replies and on the peer certificate are inputs (`r1`, `r2`, `spk`), so every
  theorem holds for any decoder.
-/
namespace Rdp.Nla
open Rdp Rdp.Crypto Rdp.Global

/-- minimal big-endian bytes of a positive number -/
def beMin : Nat → Nat → Bytes
  | 0, _ => []
  | fuel + 1, n => if n = 0 then [] else beMin fuel (n / 256) ++ [UInt8.ofNat (n % 256)]

def derLen (n : Nat) : Bytes :=
  if n < 128 then [UInt8.ofNat n] else
  let bs := beMin 8 n
  UInt8.ofNat (0x80 + bs.length) :: bs

def derTLV (tag : UInt8) (c : Bytes) : Bytes := tag :: (derLen c.length ++ c)

def derSeq (c : Bytes) : Bytes := derTLV 0x30 c
def derCtx (n : Nat) (c : Bytes) : Bytes := derTLV (UInt8.ofNat (0xa0 + n)) c
def derOctets (c : Bytes) : Bytes := derTLV 0x04 c
def derSmallInt (n : UInt8) : Bytes := [0x02, 0x01, n]

/-- `create_ts_request` -/
def tsRequest (nego : Bytes) : Bytes :=
  derSeq (derCtx 0 (derSmallInt 2) ++ derCtx 1 (derSeq (derSeq (derCtx 0 (derOctets nego)))))
/-- `create_ts_authenticate` -/
def tsAuthenticate (nego pubKeyAuth : Bytes) : Bytes :=
  derSeq (derCtx 0 (derSmallInt 2) ++ derCtx 1 (derSeq (derSeq (derCtx 0 (derOctets nego)))) ++
          derCtx 3 (derOctets pubKeyAuth))
/-- `create_ts_credentials` -/
def tsCredentials (domain user password : Bytes) : Bytes :=
  derSeq (derCtx 0 (derSmallInt 1) ++
          derCtx 1 (derOctets (derSeq (derCtx 0 (derOctets domain) ++ derCtx 1 (derOctets user) ++
                                       derCtx 2 (derOctets password)))))
/-- `create_ts_authinfo` -/
def tsAuthInfo (authInfo : Bytes) : Bytes :=
  derSeq (derCtx 0 (derSmallInt 2) ++ derCtx 2 (derOctets authInfo))

/-- `self.is_unicode` after `read_challenge_message` -/
def challengeUnicode (request : Bytes) : Bool :=
  match (readAll challengeTmpl request).bind fun m => (castComp m).bind fun fs => castU32 fs "NegotiateFlags" with
  | .ok flags => flags &&& 1 = 1
  | _ => false

structure CsspEnv where
  ntlm : NtlmIn
  /-- `read_ts_server_challenge(link.read(0))`: the CHALLENGE token, or the decoder's error -/
  r1 : Outcome Bytes
  /-- SubjectPublicKey of the TLS peer certificate, or the error of obtaining it -/
  spk : Outcome Bytes
  /-- `read_ts_validate(link.read(0))`: the sealed pubKeyAuth, or the decoder's error -/
  r2 : Outcome Bytes
  restricted : Bool
  /-- the three credential strings in both encodings (UTF-16LE, raw) -/
  dom16 : Bytes
  usr16 : Bytes
  pwd16 : Bytes
  dom8 : Bytes
  usr8 : Bytes
  pwd8 : Bytes

/-- the credentials the client is about to seal -/
def credentialBytes (e : CsspEnv) (unicode : Bool) : Bytes :=
  if e.restricted then tsCredentials [] [] []
  else if unicode then tsCredentials e.dom16 e.usr16 e.pwd16
  else tsCredentials e.dom8 e.usr8 e.pwd8

/-- what the client holds after the first two rounds -/
structure CsspSession where
  tok : Bytes          -- AUTHENTICATE token
  sealedKey : Bytes    -- gss_wrapex(certificate key)
  ctx1 : SecCtx        -- security context after that seal
  spk : Bytes
  chal : Bytes

/-- rounds one and two up to (not including) the second write: an early result or the session -/
def firstRounds (e : CsspEnv) : Except (Outcome Unit) CsspSession :=
  match e.r1 with
  | .err x => .error (.err x)
  | .panic p => .error (.panic p)
  | .ok chal =>
  match readChallenge e.ntlm chal with
  | .err x => .error (.err x)
  | .panic p => .error (.panic p)
  | .ok tok =>
  match buildSecurityInterface e.ntlm.exportedKey with
  | .err x => .error (.err x)
  | .panic p => .error (.panic p)
  | .ok ctx =>
  match e.spk with
  | .err x => .error (.err x)
  | .panic p => .error (.panic p)
  | .ok spk =>
  match wrap ctx spk with
  | .err x => .error (.err x)
  | .panic p => .error (.panic p)
  | .ok (s1, ctx1) => .ok ⟨tok, s1, ctx1, spk, chal⟩

/-- the final round: the decoded reply is unsealed and compared; the result and the third
    write, if any -/
def finalRound (r2 : Outcome Bytes) (creds : Bytes) (ctx1 : SecCtx) (spk : Bytes) : Outcome Unit × Option Bytes :=
  match r2 with
  | .err x => (.err x, none)
  | .panic p => (.panic p, none)
  | .ok pka =>
  match unwrap ctx1 pka with
  | (.err x, _) => (.err x, none)
  | (.panic p, _) => (.panic p, none)
  | (.ok pt, ctx2) =>
  if leNat pt ≠ leNat spk + 1 then (.err "PossibleMITM", none) else
  match wrap ctx2 creds with
  | .err x => (.err x, none)
  | .panic p => (.panic p, none)
  | .ok (s3, _) => (.ok (), some (tsAuthInfo s3))

/-- `cssp_connect`: (result, bytes written on the link in order) -/
def csspConnect (e : CsspEnv) : Outcome Unit × List Bytes :=
  let w1 := tsRequest e.ntlm.negotiate
  match firstRounds e with
  | .error r => (r, [w1])
  | .ok s =>
    let fr := finalRound e.r2 (credentialBytes e (challengeUnicode s.chal)) s.ctx1 s.spk
    (fr.1, [w1, tsAuthenticate s.tok s.sealedKey] ++ fr.2.toList)

end Rdp.Nla
