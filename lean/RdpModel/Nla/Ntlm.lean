import RdpModel.Nla.Seal
import RdpModel.Wire.Global
/-
  Model of the NTLMv2 client of src/nla/ntlm.rs: NEGOTIATE, CHALLENGE parsing (payload
  fields, target information), response computation, AUTHENTICATE with MIC, key derivation.
  Strings enter as the bytes the client would use (UTF-16LE or raw, chosen by the UNICODE
  flag exactly as the code does); the random values are parameters.
-/
namespace Rdp.Nla
open Rdp Rdp.Crypto Rdp.Schema Rdp.Global

def ntlmSig : Bytes := [0x4e, 0x54, 0x4c, 0x4d, 0x53, 0x53, 0x50, 0x00]   -- "NTLMSSP\0"

def versionTmpl : Msg := .comp [
  ("ProductMajorVersion", .u8 6), ("ProductMinorVersion", .u8 0), ("ProductBuild", u16le 6002),
  ("Reserved", .trame [u16le 0, .u8 0]), ("NTLMRevisionCurrent", .u8 0x0F)]

def NEGOTIATE_VERSION : Nat := 0x02000000

/-- flags of `create_negotiate_message` -/
def clientFlags : Nat :=
  0x40000000 ||| 0x20000000 ||| 0x00080000 ||| 0x00008000 ||| 0x00000200 ||| 0x00000020 |||
  0x00000010 ||| 0x00000004 ||| 0x00000001

def negotiateMsg (flags : Nat) : Msg := .comp [
  ("Signature", blob ntlmSig), ("MessageType", u32le 1),
  ("NegotiateFlags", .dyn (u32le flags) (.skipIf "Version" NEGOTIATE_VERSION 0)),
  ("DomainNameLen", u16le 0), ("DomainNameMaxLen", u16le 0), ("DomainNameBufferOffset", u32le 0),
  ("WorkstationLen", u16le 0), ("WorkstationMaxLen", u16le 0), ("WorkstationBufferOffset", u32le 0),
  ("Version", versionTmpl), ("Payload", blob [])]

def challengeTmpl : Msg := .comp [
  ("Signature", .check (blob ntlmSig)), ("MessageType", .check (u32le 2)),
  ("TargetNameLen", u16le 0), ("TargetNameLenMax", u16le 0), ("TargetNameBufferOffset", u32le 0),
  ("NegotiateFlags", .dyn (u32le 0) (.skipIf "Version" NEGOTIATE_VERSION 0)),
  ("ServerChallenge", blob (zeros 8)), ("Reserved", blob (zeros 8)),
  ("TargetInfoLen", u16le 0), ("TargetInfoMaxLen", u16le 0), ("TargetInfoBufferOffset", u32le 0),
  ("Version", versionTmpl), ("Payload", blob [])]

def avPairTmpl : Msg := .comp [
  ("AvId", u16le 0), ("AvLen", .dyn (u16le 0) (.size "Value" 1 0 0)), ("Value", blob [])]

/-- `get_payload_field(message, length, buffer_offset)`; offsets outside the payload are
    errors -/
def getPayloadField (msgLen : Nat) (payload : Bytes) (length bufferOffset : Nat) : Outcome Bytes :=
  let offset := msgLen - payload.length
  if bufferOffset < offset then .err "InvalidSize"
  else
    let start := bufferOffset - offset
    if start + length > payload.length then .err "InvalidSize"
    else .ok ((payload.drop start).take length)

/-- `read_target_info`: walks the AV pairs until MsvAvEOL; returns the timestamp if any
    (a later pair with the same id replaces an earlier one) -/
def readTargetInfo : Nat → Bytes → Option Bytes → Outcome (Option Bytes)
  | 0, _, _ => .panic "spin"
  | fuel+1, s, ts =>
    match read avPairTmpl s with
    | .panic p => .panic p
    | .err _ => .err "eof"
    | .ok m rest =>
      (castComp m).bind fun fs =>
      (castU16 fs "AvId").bind fun id =>
        if id > 0x000A then .err "InvalidCast"
        else if id = 0 then .ok ts
        else
          (castSlice fs "Value").bind fun v =>
            readTargetInfo fuel rest (if id = 7 then some v else ts)

/-- `ntowfv2(password, user, domain)`: `pw16` = UTF-16LE(password), `ud16` =
    UTF-16LE(uppercase(user) ++ domain) (the case mapping is Rust's, it enters as bytes) -/
def ntowfv2 (pw16 ud16 : Bytes) : Bytes := hmacMd5 (md4 pw16) ud16
/-- `ntowfv2_hash(hash, user, domain)` used by `Ntlm::from_hash` -/
def ntowfv2Hash (hash ud16 : Bytes) : Bytes := hmacMd5 hash ud16

structure NtlmIn where
  key : Bytes                 -- ResponseKeyNT = ResponseKeyLM (NTOWFv2)
  domainU16 : Bytes
  userU16 : Bytes
  domainRaw : Bytes
  userRaw : Bytes
  negotiate : Bytes           -- the NEGOTIATE message sent earlier
  clientChallenge : Bytes     -- random(8)
  exportedKey : Bytes         -- random(16)

def computeResponseV2 (key serverChallenge clientChallenge time serverName : Bytes) : Bytes × Bytes × Bytes :=
  let temp := [1, 1] ++ zeros 6 ++ time ++ clientChallenge ++ zeros 4 ++ serverName
  let ntProof := hmacMd5 key (serverChallenge ++ temp)
  (ntProof ++ temp, hmacMd5 key (serverChallenge ++ clientChallenge) ++ clientChallenge, hmacMd5 key ntProof)

def rc4k (key pt : Bytes) : Outcome Bytes :=
  (Rc4.new key).bind fun r => .ok (r.process pt).1

/-- fixed part of AUTHENTICATE; `offset` = where the payload starts -/
def authenticateMsg (lm nt domain user workstation ek : Bytes) (flags : Nat) : Msg :=
  let offset := if flags &&& NEGOTIATE_VERSION = 0 then 80 else 88
  let f := fun (n : String) (b : Bytes) (off : Nat) =>
    [(n ++ "Len", u16le (b.length % 65536)), (n ++ "MaxLen", u16le (b.length % 65536)),
     (n ++ "BufferOffset", u32le (off % 4294967296))]
  .comp ([("Signature", .check (blob ntlmSig)), ("MessageType", .check (u32le 3))] ++
    f "LmChallengeResponse" lm offset ++
    f "NtChallengeResponse" nt (offset + lm.length) ++
    f "DomainName" domain (offset + lm.length + nt.length) ++
    f "UserName" user (offset + lm.length + nt.length + domain.length) ++
    f "Workstation" workstation (offset + lm.length + nt.length + domain.length + user.length) ++
    f "EncryptedRandomSession" ek (offset + lm.length + nt.length + domain.length + user.length + workstation.length) ++
    [("NegotiateFlags", .dyn (u32le flags) (.skipIf "Version" NEGOTIATE_VERSION 0)),
     ("Version", versionTmpl)])

/-- `Ntlm::read_challenge_message(request)`: the AUTHENTICATE token -/
def readChallenge (i : NtlmIn) (request : Bytes) : Outcome Bytes :=
  (readAll challengeTmpl request).bind fun m =>
  (castComp m).bind fun fs =>
  (castSlice fs "ServerChallenge").bind fun serverChallenge =>
  (castSlice fs "Payload").bind fun payload =>
  (length m).bind fun msgLen =>
  (castU16 fs "TargetInfoLen").bind fun tiLen =>
  (castU32 fs "TargetInfoBufferOffset").bind fun tiOff =>
  (getPayloadField msgLen payload tiLen tiOff).bind fun targetInfo =>
  (readTargetInfo (targetInfo.length + 1) targetInfo none).bind fun ts =>
    match ts with
    | none => .err "no timestamp available"
    | some timestamp =>
      let (nt, lm, sessionBaseKey) := computeResponseV2 i.key serverChallenge i.clientChallenge timestamp targetInfo
      (rc4k sessionBaseKey i.exportedKey).bind fun ek =>
      (castU32 fs "NegotiateFlags").bind fun flags =>
        let unicode := flags &&& 1 = 1
        let domain := if unicode then i.domainU16 else i.domainRaw
        let user := if unicode then i.userU16 else i.userRaw
        let header := authenticateMsg lm nt domain user [] ek flags
        let payloadOut := lm ++ nt ++ domain ++ user ++ [] ++ ek
        (toVec header).bind fun hb =>
          let tmp := hb ++ zeros 16 ++ payloadOut
          let mic := hmacMd5 i.exportedKey (i.negotiate ++ request ++ tmp)
          .ok (hb ++ mic ++ payloadOut)

/-- what `read_challenge_message` takes from the CHALLENGE -/
structure ChalView where
  sc : Bytes
  flags : Nat
  targetInfo : Bytes
  timestamp : Bytes

/-- the response half of `read_challenge_message` -/
def respond (i : NtlmIn) (request : Bytes) (v : ChalView) : Outcome Bytes :=
  let (nt, lm, sessionBaseKey) := computeResponseV2 i.key v.sc i.clientChallenge v.timestamp v.targetInfo
  (rc4k sessionBaseKey i.exportedKey).bind fun ek =>
    let unicode := v.flags &&& 1 = 1
    let domain := if unicode then i.domainU16 else i.domainRaw
    let user := if unicode then i.userU16 else i.userRaw
    let header := authenticateMsg lm nt domain user [] ek v.flags
    let payloadOut := lm ++ nt ++ domain ++ user ++ [] ++ ek
    (toVec header).bind fun hb =>
      let tmp := hb ++ zeros 16 ++ payloadOut
      let mic := hmacMd5 i.exportedKey (i.negotiate ++ request ++ tmp)
      .ok (hb ++ mic ++ payloadOut)

/-- `sign_key` / `seal_key` -/
def magic (s : String) : Bytes := s.toUTF8.toList ++ [0]
def signKey (k : Bytes) (client : Bool) : Bytes :=
  md5 (k ++ magic (if client then "session key to client-to-server signing key magic constant"
                   else "session key to server-to-client signing key magic constant"))
def sealKey (k : Bytes) (client : Bool) : Bytes :=
  md5 (k ++ magic (if client then "session key to client-to-server sealing key magic constant"
                   else "session key to server-to-client sealing key magic constant"))

/-- `build_security_interface` -/
def buildSecurityInterface (exportedKey : Bytes) : Outcome SecCtx :=
  (Rc4.new (sealKey exportedKey true)).bind fun e =>
  (Rc4.new (sealKey exportedKey false)).bind fun d =>
    .ok ⟨e, d, signKey exportedKey true, signKey exportedKey false, 0⟩

end Rdp.Nla
