import RdpModel.Base.Outcome
/-
  Model of `fast_bitmap_transfer` (src/bin/mstsc-rs.rs): per-row bounds test, then
  `copy_nonoverlapping(src + src_i, dst + dest_i, count)`; every raw copy is recorded
  so that memory safety is a statement about the log.  `img` is the decoded image as
  32-bit pixels (what `transmute_vec(bitmap.decompress()?)` yields: ⌊len/4⌋ pixels).
-/
namespace Rdp.Gui

structure Geo where
  left : Nat
  top : Nat
  right : Nat
  bottom : Nat
  bw : Nat        -- bitmap.width (row stride of the decoded image)
deriving Repr

structure Copy where
  src : Nat
  dst : Nat
  cnt : Nat
deriving Repr

/-- effect of one in-bounds `copy_nonoverlapping` on the destination -/
def copyRow (buf img : List UInt32) (src dst cnt : Nat) : List UInt32 :=
  buf.take dst ++ (img.drop src).take cnt ++ buf.drop (dst + cnt)

structure St where
  buf : List UInt32
  log : List Copy

/-- the `for i in 0..n` loop body, rows `i, i+1, …, i+n-1` -/
def rows (width : Nat) (g : Geo) (img : List UInt32) : Nat → Nat → St → St × Outcome Unit
  | _, 0, s => (s, .ok ())
  | i, n+1, s =>
    let dest_i := (i + g.top) * width + g.left
    let src_i := i * g.bw
    match checkedSub "mstsc-rs.rs:right-left" g.right g.left with
    | .ok d =>
      let count := d + 1
      if dest_i > s.buf.length ∨ dest_i + count > s.buf.length ∨ src_i > img.length ∨ src_i + count > img.length then
        (s, .err "InvalidSize")
      else
        rows width g img (i+1) n ⟨copyRow s.buf img src_i dest_i count, s.log ++ [⟨src_i, dest_i, count⟩]⟩
    | .err e => (s, .err e)
    | .panic p => (s, .panic p)

/-- `fast_bitmap_transfer` after decompression -/
def blit (buf : List UInt32) (width : Nat) (g : Geo) (img : List UInt32) : St × Outcome Unit :=
  -- inverted rectangles are refused before any arithmetic on them
  if g.bottom < g.top ∨ g.right < g.left then (⟨buf, []⟩, .err "InvalidSize")
  else
    match checkedSub "mstsc-rs.rs:bottom-top" g.bottom g.top with
    | .ok d => rows width g img 0 (d + 1) ⟨buf, []⟩
    | .err e => (⟨buf, []⟩, .err e)
    | .panic p => (⟨buf, []⟩, .panic p)

end Rdp.Gui
