/-
  Transition system of the GUI client's receive thread (`launch_rdp_thread` in
  src/bin/mstsc-rs.rs) together with the transport it sits on: the socket holds TLS records
  that arrived and were not yet pulled, the TLS stream holds decrypted bytes not yet
  consumed; `select` watches the SOCKET, `RdpClient::read` consumes exactly one PDU from the
  TLS stream, pulling records on demand.  The byte stream is described by PDU lengths; record
  boundaries are arbitrary.  `fixed` selects the loop after the repair (leave on any read
  error) or the pinned one (leave only on `Error::RdpError`).
-/
namespace Rdp.Gui.Recv

inductive Kind where
  | bitmap (id : Nat)   -- forwarded on the bitmap channel
  | quiet               -- a PDU the client decodes and ignores (no event): the loop goes on
  | ultimatum           -- MCS disconnect provider ultimatum  → Error::RdpError(Disconnect)
  | badRdp              -- undecodable PDU reported as Error::RdpError
  | badIo               -- undecodable PDU reported as Error::Io (short content)
deriving Repr, DecidableEq

structure Pdu where
  kind : Kind
  len : Nat
deriving Repr, DecidableEq

inductive Pc where
  | sel    -- in `wait_for_fd` (select on the raw descriptor)
  | rd     -- holding the lock, inside `RdpClient::read`
  | done   -- left the loop, client released
deriving Repr, DecidableEq

structure St where
  pdus : List Pdu        -- the part of the server's stream not yet consumed (head = next PDU)
  buf : Nat              -- decrypted bytes buffered in the TLS stream
  sock : List Nat        -- sizes of the records waiting in the socket
  closed : Bool          -- the peer closed (FIN / close_notify): EOF once `sock` is drained
  pc : Pc
  delivered : List Nat   -- bitmap ids forwarded so far, in order
deriving Repr, DecidableEq

/-- one step of the thread; `none` = blocked (or finished) -/
def step (fixed : Bool) (s : St) : Option St :=
  match s.pc with
  | .done => none
  | .sel => if s.sock ≠ [] ∨ s.closed then some { s with pc := .rd } else none
  | .rd =>
    match s.pdus with
    | p :: rest =>
      if p.len ≤ s.buf then
        match p.kind with
        | .bitmap id => some { s with pdus := rest, buf := s.buf - p.len, delivered := s.delivered ++ [id], pc := .sel }
        | .quiet => some { s with pdus := rest, buf := s.buf - p.len, pc := .sel }
        | .ultimatum => some { s with pdus := rest, buf := s.buf - p.len, pc := .done }
        | .badRdp => some { s with pdus := rest, buf := s.buf - p.len, pc := .done }
        | .badIo => some { s with pdus := rest, buf := s.buf - p.len, pc := if fixed then .done else .sel }
      else
        match s.sock with
        | r :: more => some { s with buf := s.buf + r, sock := more }
        | [] => if s.closed then some { s with pc := if fixed then .done else .sel } else none
    | [] =>
      match s.sock with
      | r :: more => some { s with buf := s.buf + r, sock := more }
      | [] => if s.closed then some { s with pc := if fixed then .done else .sel } else none

/-- server actions -/
def push (r : Nat) (s : St) : St := { s with sock := s.sock ++ [r] }
def close (s : St) : St := { s with closed := true }

/-- run the thread until it blocks (at most `fuel` steps) -/
def run (fixed : Bool) : Nat → St → St
  | 0, s => s
  | n + 1, s => match step fixed s with | some s' => run fixed n s' | none => s

def ids : List Pdu → List Nat
  | [] => []
  | p :: ps => match p.kind with | .bitmap i => i :: ids ps | _ => ids ps

def init (pdus : List Pdu) : St := ⟨pdus, 0, [], false, .sel, []⟩

end Rdp.Gui.Recv
