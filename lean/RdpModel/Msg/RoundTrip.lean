import RdpModel.Msg.Model
/-
  Generic theorems about the message model (C18; reused by C04–C07, C10, C11):
    length_eq_write : the reported length is the number of bytes written
    read_write      : reading the bytes written for a well-formed value `m` into its
                      template `t` reproduces `m` and consumes exactly those bytes
  `OK g t m`  — `m` is a well-formed instance of template `t`; `g` = "nothing follows"
  (needed by the parts whose parse depends on the end of input: read-to-end byte blocks,
  absent optionals, arrays).
-/
namespace Rdp

/- total encoder: the bytes `write` produces (for messages whose option closures do not
    panic, `write m = .ok (enc m)`, see `write_eq_enc`) -/
mutual
def enc : Msg → Bytes
  | .u8 v => [UInt8.ofNat v]
  | .u16 e v => encInt e 2 v
  | .u32 e v => encInt e 4 v
  | .bytes b => b
  | .check m => enc m
  | .trame ms => encList ms
  | .comp fs => encFields fs []
  | .dyn m _ => enc m
  | .opt none => []
  | .opt (some m) => enc m
  | .array _ items => encList items
def encList : List Msg → Bytes
  | [] => []
  | m :: ms => enc m ++ encList ms
def encFields : List (String × Msg) → List String → Bytes
  | [], _ => []
  | (n, m) :: fs, skip =>
    if skip.contains n then encFields fs skip
    else enc m ++ encFields fs (match options m with | .ok o => addSkip o skip | _ => skip)
end

/- no option closure reachable by `write` panics -/
mutual
def OptsOk : Msg → Prop
  | .check m => OptsOk m
  | .trame ms => OptsOkList ms
  | .comp fs => OptsOkFields fs []
  | .dyn m _ => OptsOk m
  | .opt (some m) => OptsOk m
  | .array _ items => OptsOkList items
  | _ => True
def OptsOkList : List Msg → Prop
  | [] => True
  | m :: ms => OptsOk m ∧ OptsOkList ms
def OptsOkFields : List (String × Msg) → List String → Prop
  | [], _ => True
  | (n, m) :: fs, skip =>
    if skip.contains n then OptsOkFields fs skip
    else OptsOk m ∧ ∃ o, options m = .ok o ∧ OptsOkFields fs (addSkip o skip)
end

mutual
theorem write_eq_enc (m : Msg) (h : OptsOk m) : write m = .ok (enc m) := by
  match m with
  | .u8 _ | .u16 _ _ | .u32 _ _ | .bytes _ | .opt none => simp [write, enc]
  | .check m => simp only [OptsOk] at h; simp [write, enc, write_eq_enc m h]
  | .trame ms => simp only [OptsOk] at h; simp [write, enc, writeList_eq_enc ms h]
  | .comp fs => simp only [OptsOk] at h; simp [write, enc, writeFields_eq_enc fs [] h]
  | .dyn m _ => simp only [OptsOk] at h; simp [write, enc, write_eq_enc m h]
  | .opt (some m) => simp only [OptsOk] at h; simp [write, enc, write_eq_enc m h]
  | .array _ items => simp only [OptsOk] at h; simp [write, enc, writeList_eq_enc items h]
theorem writeList_eq_enc (ms : List Msg) (h : OptsOkList ms) : writeList ms = .ok (encList ms) := by
  match ms with
  | [] => simp [writeList, encList]
  | m :: ms =>
    simp only [OptsOkList] at h
    simp [writeList, encList, write_eq_enc m h.1, writeList_eq_enc ms h.2]
theorem writeFields_eq_enc (fs : List (String × Msg)) (skip : List String) (h : OptsOkFields fs skip) :
    writeFields fs skip = .ok (encFields fs skip) := by
  match fs with
  | [] => simp [writeFields, encFields]
  | (n, m) :: fs =>
    simp only [OptsOkFields] at h
    by_cases hs : n ∈ skip
    · have hc : skip.contains n = true := by simpa using hs
      simp only [hc, if_true] at h
      simp [writeFields, encFields, hs, writeFields_eq_enc fs skip h]
    · have hc : ¬ (skip.contains n = true) := by simpa using hs
      simp only [hc, if_false] at h
      obtain ⟨h1, o, ho, h2⟩ := h
      simp [writeFields, encFields, hs, write_eq_enc m h1, ho, writeFields_eq_enc fs _ h2]
end

mutual
theorem length_eq_enc (m : Msg) (h : OptsOk m) : length m = .ok (enc m).length := by
  match m with
  | .u8 _ | .u16 _ _ | .u32 _ _ | .bytes _ | .opt none => simp [length, enc]
  | .check m => simp only [OptsOk] at h; simp [length, enc, length_eq_enc m h]
  | .trame ms => simp only [OptsOk] at h; simp [length, enc, lengthList_eq_enc ms h]
  | .comp fs => simp only [OptsOk] at h; simp [length, enc, lengthFields_eq_enc fs [] h]
  | .dyn m _ => simp only [OptsOk] at h; simp [length, enc, length_eq_enc m h]
  | .opt (some m) => simp only [OptsOk] at h; simp [length, enc, length_eq_enc m h]
  | .array _ items => simp only [OptsOk] at h; simp [length, enc, lengthList_eq_enc items h]
theorem lengthList_eq_enc (ms : List Msg) (h : OptsOkList ms) : lengthList ms = .ok (encList ms).length := by
  match ms with
  | [] => simp [lengthList, encList]
  | m :: ms =>
    simp only [OptsOkList] at h
    simp [lengthList, encList, length_eq_enc m h.1, lengthList_eq_enc ms h.2]
theorem lengthFields_eq_enc (fs : List (String × Msg)) (skip : List String) (h : OptsOkFields fs skip) :
    lengthFields fs skip = .ok (encFields fs skip).length := by
  match fs with
  | [] => simp [lengthFields, encFields]
  | (n, m) :: fs =>
    simp only [OptsOkFields] at h
    by_cases hs : n ∈ skip
    · have hc : skip.contains n = true := by simpa using hs
      simp only [hc, if_true] at h
      simp [lengthFields, encFields, hs, lengthFields_eq_enc fs skip h]
    · have hc : ¬ (skip.contains n = true) := by simpa using hs
      simp only [hc, if_false] at h
      obtain ⟨h1, o, ho, h2⟩ := h
      simp [lengthFields, encFields, hs, length_eq_enc m h1, ho, lengthFields_eq_enc fs _ h2]
end

end Rdp

namespace Rdp

@[simp] theorem rdExact_append (a r : Bytes) : rdExact a.length (a ++ r) = .ok a r := by
  simp [rdExact]

theorem rdExact_append' (n : Nat) (a r : Bytes) (h : a.length = n) : rdExact n (a ++ r) = .ok a r := by
  subst h; simp

theorem u8_roundtrip (v : Nat) (h : v < 256) : leNat [UInt8.ofNat v] = v := by
  simp [leNat]; omega

/- `OK g t m`: value `m` is a well-formed instance of template `t`; `g` = nothing follows. -/
mutual
def OK (g : Bool) (t m : Msg) : Prop :=
  match g, t, m with
  | _, .u8 _, .u8 v => v < 256
  | _, .u16 e _, .u16 e' v => e = e' ∧ v < 65536
  | _, .u32 e _, .u32 e' v => e = e' ∧ v < 4294967296
  | g, .bytes t, .bytes b => (t.length = b.length ∧ t.length ≠ 0) ∨ (t.length = 0 ∧ g = true)
  | g, .check t, .check m => m = t ∧ OptsOk m ∧ OK g t m
  | g, .trame ts, .trame ms => OKList g ts ms
  | g, .comp ts, .comp ms => OKFields g ts ms [] []
  | g, .dyn t f, .dyn m f' => f = f' ∧ OK g t m
  | _, .opt none, .opt none => True
  | g, .opt (some t), .opt (some m) => OK g t m
  | g, .opt (some t), .opt none => g = true ∧ read t [] = .err []
  | g, .array (some t) [], .array (some t') items =>
      t' = t ∧ g = true ∧ read t [] = .err [] ∧ OKItems t items
  | _, _, _ => False
termination_by structural m
def OKList (g : Bool) (ts ms : List Msg) : Prop :=
  match g, ts, ms with
  | _, [], [] => True
  | g, t :: ts, m :: ms => OK (g && ts.isEmpty) t m ∧ OKList g ts ms
  | _, _, _ => False
termination_by structural ms
def OKFields (g : Bool) (ts ms : List (String × Msg)) (skip : List String) (ds : List (String × Nat)) : Prop :=
  match g, ts, ms, skip, ds with
  | _, [], [], _, _ => True
  | g, (n, t) :: ts, (n', m) :: ms, skip, ds =>
    n = n' ∧
    (if skip.contains n then t = m ∧ OKFields g ts ms skip ds
     else ∃ o, options m = .ok o ∧
       (match lookupSize ds n with
        | some k => (enc m).length = k ∧ OK true t m
        | none => OK (g && ts.isEmpty) t m) ∧
       OKFields g ts ms (addSkip o skip) (addSize o ds))
  | _, _, _, _, _ => False
termination_by structural ms
def OKItems (t : Msg) (ms : List Msg) : Prop :=
  match ms with
  | [] => True
  | m :: ms => OK ms.isEmpty t m ∧ (enc m) ≠ [] ∧ OKItems t ms
termination_by structural ms
end

theorem readArrayLoop_items (t : Msg) (items : List Msg)
    (ih : ∀ m ∈ items, ∀ (g : Bool) (rest : Bytes), OK g t m → (g = true → rest = []) →
          read t (enc m ++ rest) = .ok m rest)
    (hend : read t [] = .err []) (hok : OKItems t items) (fuel : Nat) (acc : List Msg)
    (hfuel : (encList items).length < fuel) :
    readArrayLoop (fun b => read t b) fuel (encList items) acc = .ok (acc.reverse ++ items) [] := by
  induction items generalizing fuel acc with
  | nil =>
    cases fuel with
    | zero => simp at hfuel
    | succ f => simp [readArrayLoop, encList, hend]
  | cons m ms ihl =>
    cases fuel with
    | zero => simp at hfuel
    | succ f =>
      simp only [OKItems] at hok
      obtain ⟨h1, hne, h2⟩ := hok
      have hr := ih m (by simp) ms.isEmpty (encList ms) h1 (by
        intro hh
        cases ms with
        | nil => simp [encList]
        | cons a l => simp at hh)
      simp only [readArrayLoop, encList, hr]
      have hlt : (encList ms).length < (enc m ++ encList ms).length := by
        have : (enc m).length ≠ 0 := by
          intro h0; exact hne (List.eq_nil_of_length_eq_zero h0)
        simp; omega
      simp only [hlt, if_true]
      have hlen : (encList (m :: ms)).length = (enc m).length + (encList ms).length := by
        simp [encList]
      have hm0 : (enc m).length ≠ 0 := by
        intro h0; exact hne (List.eq_nil_of_length_eq_zero h0)
      rw [ihl (fun x hx => ih x (by simp [hx])) h2 f (m :: acc) (by omega)]
      simp

mutual
theorem read_enc (g : Bool) (t m : Msg) (rest : Bytes) (h : OK g t m) (hg : g = true → rest = []) :
    read t (enc m ++ rest) = .ok m rest := by
  match t, m with
  | .u8 _, .u8 v =>
    simp only [OK] at h
    simp [read, enc, rdExact, u8_roundtrip v h]
  | .u16 e _, .u16 e' v =>
    simp only [OK] at h
    obtain ⟨rfl, hv⟩ := h
    simp [read, enc, rdExact_append' 2 _ _ (encInt_length e 2 v), decInt_encInt e 2 v (by simpa using hv)]
  | .u32 e _, .u32 e' v =>
    simp only [OK] at h
    obtain ⟨rfl, hv⟩ := h
    simp [read, enc, rdExact_append' 4 _ _ (encInt_length e 4 v), decInt_encInt e 4 v (by simpa using hv)]
  | .bytes tb, .bytes b =>
    simp only [OK] at h
    rcases h with ⟨hl, hne⟩ | ⟨hz, hgt⟩
    · simp [read, enc, hne, rdExact_append' tb.length b rest hl.symm]
    · have := hg hgt; subst this
      simp [read, enc, hz]
  | .check t', .check m' =>
    simp only [OK] at h
    obtain ⟨rfl, hopt, hok⟩ := h
    have ih := read_enc g m' m' rest hok hg
    simp [read, enc, ih, write_eq_enc m' hopt]
  | .trame ts, .trame ms =>
    simp only [OK] at h
    have ih := readList_enc g ts ms rest h hg
    simp [read, enc, ih]
  | .comp ts, .comp ms =>
    simp only [OK] at h
    have ih := readFields_enc g ts ms [] [] rest h hg
    simp [read, enc, ih]
  | .dyn t' f, .dyn m' f' =>
    simp only [OK] at h
    obtain ⟨rfl, hok⟩ := h
    have ih := read_enc g t' m' rest hok hg
    simp [read, enc, ih]
  | .opt none, .opt none => simp [read, enc]
  | .opt (some t'), .opt (some m') =>
    simp only [OK] at h
    have ih := read_enc g t' m' rest h hg
    simp [read, enc, ih]
  | .opt (some t'), .opt none =>
    simp only [OK] at h
    obtain ⟨hgt, he⟩ := h
    have := hg hgt; subst this
    simp [read, enc, he]
  | .array (some t') [], .array (some t'') items =>
    simp only [OK] at h
    obtain ⟨rfl, hgt, hend, hitems⟩ := h
    have := hg hgt; subst this
    have hl := readArrayLoop_items t'' items
      (fun m _ g rest hok hgr => read_enc g t'' m rest hok hgr) hend hitems
      ((encList items).length + 1) [] (by omega)
    simp only [read, enc, List.append_nil]
    rw [hl]
    simp
  | .u8 _, .u16 _ _ | .u8 _, .u32 _ _ | .u8 _, .bytes _ | .u8 _, .check _ | .u8 _, .trame _ | .u8 _, .comp _ | .u8 _, .dyn _ _ | .u8 _, .opt _ | .u8 _, .array _ _ => simp [OK] at h
  | .u16 _ _, .u8 _ | .u16 _ _, .u32 _ _ | .u16 _ _, .bytes _ | .u16 _ _, .check _ | .u16 _ _, .trame _ | .u16 _ _, .comp _ | .u16 _ _, .dyn _ _ | .u16 _ _, .opt _ | .u16 _ _, .array _ _ => simp [OK] at h
  | .u32 _ _, .u8 _ | .u32 _ _, .u16 _ _ | .u32 _ _, .bytes _ | .u32 _ _, .check _ | .u32 _ _, .trame _ | .u32 _ _, .comp _ | .u32 _ _, .dyn _ _ | .u32 _ _, .opt _ | .u32 _ _, .array _ _ => simp [OK] at h
  | .bytes _, .u8 _ | .bytes _, .u16 _ _ | .bytes _, .u32 _ _ | .bytes _, .check _ | .bytes _, .trame _ | .bytes _, .comp _ | .bytes _, .dyn _ _ | .bytes _, .opt _ | .bytes _, .array _ _ => simp [OK] at h
  | .check _, .u8 _ | .check _, .u16 _ _ | .check _, .u32 _ _ | .check _, .bytes _ | .check _, .trame _ | .check _, .comp _ | .check _, .dyn _ _ | .check _, .opt _ | .check _, .array _ _ => simp [OK] at h
  | .trame _, .u8 _ | .trame _, .u16 _ _ | .trame _, .u32 _ _ | .trame _, .bytes _ | .trame _, .check _ | .trame _, .comp _ | .trame _, .dyn _ _ | .trame _, .opt _ | .trame _, .array _ _ => simp [OK] at h
  | .comp _, .u8 _ | .comp _, .u16 _ _ | .comp _, .u32 _ _ | .comp _, .bytes _ | .comp _, .check _ | .comp _, .trame _ | .comp _, .dyn _ _ | .comp _, .opt _ | .comp _, .array _ _ => simp [OK] at h
  | .dyn _ _, .u8 _ | .dyn _ _, .u16 _ _ | .dyn _ _, .u32 _ _ | .dyn _ _, .bytes _ | .dyn _ _, .check _ | .dyn _ _, .trame _ | .dyn _ _, .comp _ | .dyn _ _, .opt _ | .dyn _ _, .array _ _ => simp [OK] at h
  | .opt _, .u8 _ | .opt _, .u16 _ _ | .opt _, .u32 _ _ | .opt _, .bytes _ | .opt _, .check _ | .opt _, .trame _ | .opt _, .comp _ | .opt _, .dyn _ _ | .opt _, .array _ _ => simp [OK] at h
  | .opt none, .opt (some _) => simp [OK] at h
  | .array _ _, .u8 _ | .array _ _, .u16 _ _ | .array _ _, .u32 _ _ | .array _ _, .bytes _ | .array _ _, .check _ | .array _ _, .trame _ | .array _ _, .comp _ | .array _ _, .dyn _ _ | .array _ _, .opt _ => simp [OK] at h
  | .array none _, .array _ _ => simp [OK] at h
  | .array (some _) (_ :: _), .array _ _ => simp [OK] at h
  | .array (some _) [], .array none _ => simp [OK] at h
theorem readList_enc (g : Bool) (ts ms : List Msg) (rest : Bytes) (h : OKList g ts ms) (hg : g = true → rest = []) :
    readList ts (encList ms ++ rest) = .ok ms rest := by
  match ts, ms with
  | [], [] => simp [readList, encList]
  | t :: ts', m :: ms' =>
    simp only [OKList] at h
    obtain ⟨h1, h2⟩ := h
    have hempty : (g && ts'.isEmpty) = true → encList ms' ++ rest = [] := by
      intro hh
      simp at hh
      obtain ⟨hgt, hts⟩ := hh
      subst hts
      cases ms' with
      | nil => simp [encList, hg hgt]
      | cons a l => simp [OKList] at h2
    have ih1 := read_enc (g && ts'.isEmpty) t m (encList ms' ++ rest) h1 hempty
    have ih2 := readList_enc g ts' ms' rest h2 hg
    simp [readList, encList, List.append_assoc, ih1, ih2]
  | [], _ :: _ => simp [OKList] at h
  | _ :: _, [] => simp [OKList] at h
theorem readFields_enc (g : Bool) (ts ms : List (String × Msg)) (skip : List String) (ds : List (String × Nat))
    (rest : Bytes) (h : OKFields g ts ms skip ds) (hg : g = true → rest = []) :
    readFields ts skip ds (encFields ms skip ++ rest) = .ok ms rest := by
  match ts, ms with
  | [], [] => simp [readFields, encFields]
  | (n, t) :: ts', (n', m) :: ms' =>
    simp only [OKFields] at h
    obtain ⟨rfl, h⟩ := h
    by_cases hs : n ∈ skip
    · have hc : skip.contains n = true := by simpa using hs
      simp only [hc, if_true] at h
      obtain ⟨rfl, h2⟩ := h
      have ih := readFields_enc g ts' ms' skip ds rest h2 hg
      simp [readFields, encFields, hs, ih]
    · have hc : ¬ (skip.contains n = true) := by simpa using hs
      simp only [hc] at h
      obtain ⟨o, ho, hm, h2⟩ := h
      have ih2 := readFields_enc g ts' ms' (addSkip o skip) (addSize o ds) rest h2 hg
      cases hl : lookupSize ds n with
      | some k =>
        simp only [hl] at hm
        obtain ⟨hk, hok⟩ := hm
        have ih1 := read_enc true t m [] hok (fun _ => rfl)
        simp only [List.append_nil] at ih1
        simp [readFields, readStep, encFields, hs, ho, hl, List.append_assoc, rdExact_append' k _ _ hk, ih1, ih2]
      | none =>
        simp only [hl] at hm
        have hempty : (g && ts'.isEmpty) = true → encFields ms' (addSkip o skip) ++ rest = [] := by
          intro hh
          simp at hh
          obtain ⟨hgt, hts⟩ := hh
          subst hts
          cases ms' with
          | nil => simp [encFields, hg hgt]
          | cons a l => simp [OKFields] at h2
        have ih1 := read_enc (g && ts'.isEmpty) t m (encFields ms' (addSkip o skip) ++ rest) hm hempty
        simp [readFields, readStep, encFields, hs, ho, hl, List.append_assoc, ih1, ih2]
  | [], _ :: _ => simp [OKFields] at h
  | _ :: _, [] => simp [OKFields] at h
end

end Rdp

namespace Rdp

/-! step lemmas: establish `OKFields` for a concrete schema one field at a time -/

theorem OKFields_step (g : Bool) (n : String) (t m : Msg) (ts ms : List (String × Msg))
    (skip : List String) (ds : List (String × Nat)) (o : MOpt)
    (hn : skip.contains n = false) (ho : options m = .ok o)
    (hm : match lookupSize ds n with
        | some k => (enc m).length = k ∧ OK true t m
        | none => OK (g && ts.isEmpty) t m)
    (hrest : OKFields g ts ms (addSkip o skip) (addSize o ds)) :
    OKFields g ((n, t) :: ts) ((n, m) :: ms) skip ds := by
  unfold OKFields
  refine ⟨rfl, ?_⟩
  simp only [hn]
  exact ⟨o, ho, hm, hrest⟩

theorem OKFields_skip (g : Bool) (n : String) (t : Msg) (ts ms : List (String × Msg))
    (skip : List String) (ds : List (String × Nat))
    (hn : skip.contains n = true)
    (hrest : OKFields g ts ms skip ds) :
    OKFields g ((n, t) :: ts) ((n, t) :: ms) skip ds := by
  unfold OKFields
  refine ⟨rfl, ?_⟩
  simp only [hn, if_true]
  exact ⟨trivial, hrest⟩

theorem OKFields_nil (g : Bool) (skip : List String) (ds : List (String × Nat)) :
    OKFields g [] [] skip ds := by
  unfold OKFields; trivial

theorem OK_u16 (g : Bool) (e : Endian) (a v : Nat) (h : v < 65536) : OK g (.u16 e a) (.u16 e v) := by
  simp [OK, h]
theorem OK_u32 (g : Bool) (e : Endian) (a v : Nat) (h : v < 4294967296) : OK g (.u32 e a) (.u32 e v) := by
  simp [OK, h]
theorem OK_u8 (g : Bool) (a v : Nat) (h : v < 256) : OK g (.u8 a) (.u8 v) := by
  simp [OK, h]
theorem OK_dyn (g : Bool) (t m : Msg) (f : OptFn) (h : OK g t m) : OK g (.dyn t f) (.dyn m f) := by
  simp [OK, h]
theorem OK_bytes_greedy (b : Bytes) : OK true (.bytes []) (.bytes b) := by
  simp [OK]
theorem OK_check (g : Bool) (m : Msg) (h1 : OptsOk m) (h2 : OK g m m) : OK g (.check m) (.check m) := by
  simp only [OK]; exact ⟨trivial, h1, h2⟩
theorem OK_comp (g : Bool) (ts ms : List (String × Msg)) (h : OKFields g ts ms [] []) :
    OK g (.comp ts) (.comp ms) := by
  simp only [OK]; exact h

end Rdp
