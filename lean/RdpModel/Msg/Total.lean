import RdpModel.Msg.Model
/-
  Totality of `read` (C05–C07): for every *closure-safe* template (`SafeT`: option
  closures cannot underflow or be applied to the wrong kind of field, arrays have a
  factory and their element consumes at least one byte) and EVERY input, `read` returns a
  value or an error — never a panic, never the "spin" of an `Array::read` whose element
  consumes nothing — and never yields more remaining bytes than it was given.
-/
namespace Rdp

/-- integer-like (what `cast!(DataType::U8/U16/U32, …)` and integer closures accept) -/
def IntShape : Msg → Bool
  | .u8 _ => true
  | .u16 _ _ => true
  | .u32 _ _ => true
  | .check m => IntShape m
  | _ => false

def SafeOpt (f : OptFn) (m : Msg) : Prop :=
  match f with
  | .none => True
  | .size _ _ add sub => IntShape m = true ∧ sub ≤ add
  | .sizeSat _ _ _ _ => IntShape m = true
  | .skipIf _ _ _ => IntShape m = true
  | .sizeOfSub _ sub =>
    match m with
    | .comp fs => ∃ x, lookupField fs sub = some x ∧ IntShape x = true
    | _ => False

/-- what `Check<T>` wraps in the repository: an integer or a byte block -/
def CheckShape (m : Msg) : Prop := IntShape m = true ∨ ∃ b, m = .bytes b

@[simp] theorem checkShape_u8 (v : Nat) : CheckShape (.u8 v) := Or.inl rfl
@[simp] theorem checkShape_u16 (e : Endian) (v : Nat) : CheckShape (.u16 e v) := Or.inl rfl
@[simp] theorem checkShape_u32 (e : Endian) (v : Nat) : CheckShape (.u32 e v) := Or.inl rfl
@[simp] theorem checkShape_bytes (b : Bytes) : CheckShape (.bytes b) := Or.inr ⟨b, rfl⟩

/-- surely consumes at least one byte when it succeeds -/
def Consuming : Msg → Bool
  | .u8 _ => true
  | .u16 _ _ => true
  | .u32 _ _ => true
  | .bytes b => b.length > 0
  | .check m => Consuming m
  | .dyn m _ => Consuming m
  | .comp ((_, m) :: _) => Consuming m
  | .trame (m :: _) => Consuming m
  | _ => false

mutual
def SafeT : Msg → Prop
  | .u8 _ => True
  | .u16 _ _ => True
  | .u32 _ _ => True
  | .bytes _ => True
  | .check m => CheckShape m
  | .trame ms => SafeList ms
  | .comp fs => SafeFields fs
  | .dyn m f => SafeT m ∧ SafeOpt f m
  | .opt none => True
  | .opt (some m) => SafeT m
  | .array none _ => False
  | .array (some t) items => SafeT t ∧ Consuming t = true ∧ items = []
def SafeList : List Msg → Prop
  | [] => True
  | m :: ms => SafeT m ∧ SafeList ms
def SafeFields : List (String × Msg) → Prop
  | [] => True
  | (_, m) :: fs => SafeT m ∧ SafeFields fs
end

/-! ### integers -/

theorem rdExact_noPanic (n : Nat) (s : Bytes) : (rdExact n s).NoPanic := by
  unfold rdExact; split <;> intro p h <;> cases h

theorem rdExact_len {n : Nat} {s a r : Bytes} (h : rdExact n s = .ok a r) :
    r.length + n = s.length ∧ a.length = n := by
  unfold rdExact at h
  split at h
  · injection h with h1 h2; subst h1; subst h2; simp; omega
  · cases h

theorem intVal_of_intShape (m : Msg) (h : IntShape m = true) : ∃ v, intVal m = some v := by
  match m with
  | .u8 v => exact ⟨v, rfl⟩
  | .u16 _ v => exact ⟨v, rfl⟩
  | .u32 _ v => exact ⟨v, rfl⟩
  | .check m => simp only [IntShape] at h; simpa [intVal] using intVal_of_intShape m h
  | .bytes _ | .trame _ | .comp _ | .dyn _ _ | .opt _ | .array _ _ => simp [IntShape] at h

theorem write_int (m : Msg) (h : IntShape m = true) : ∃ b, write m = .ok b := by
  match m with
  | .u8 v => exact ⟨_, rfl⟩
  | .u16 _ v => exact ⟨_, rfl⟩
  | .u32 _ v => exact ⟨_, rfl⟩
  | .check m => simp only [IntShape] at h; simpa [write] using write_int m h
  | .bytes _ | .trame _ | .comp _ | .dyn _ _ | .opt _ | .array _ _ => simp [IntShape] at h

theorem prim_read (n : Nat) (hn : 0 < n) (f : Bytes → Msg) (hf : ∀ b, IntShape (f b) = true) (s : Bytes) :
    ((rdExact n s).bind fun b r => RR.ok (f b) r).NoPanic ∧
    ∀ m r, ((rdExact n s).bind fun b r => RR.ok (f b) r) = .ok m r → IntShape m = true ∧ r.length < s.length := by
  cases hr : rdExact n s with
  | ok a r =>
    have := rdExact_len hr
    constructor
    · intro p hp; cases hp
    · intro m r' hm
      injection hm with h1 h2; subst h1; subst h2
      exact ⟨hf a, by omega⟩
  | err r =>
    constructor
    · intro p hp; cases hp
    · intro m r' hm; cases hm
  | panic p => exact absurd hr (rdExact_noPanic n s p)

/-- reading an integer-like template: no panic; the value is integer-like; ≥ 1 byte used -/
theorem read_int (t : Msg) (h : IntShape t = true) (s : Bytes) :
    (read t s).NoPanic ∧ ∀ m r, read t s = .ok m r → IntShape m = true ∧ r.length < s.length := by
  match t with
  | .u8 v => simp only [read]; exact prim_read 1 (by decide) _ (fun _ => rfl) s
  | .u16 e v => simp only [read]; exact prim_read 2 (by decide) _ (fun _ => rfl) s
  | .u32 e v => simp only [read]; exact prim_read 4 (by decide) _ (fun _ => rfl) s
  | .check t' =>
    simp only [IntShape] at h
    obtain ⟨ih1, ih2⟩ := read_int t' h s
    simp only [read]
    cases hr : read t' s with
    | ok m r =>
      obtain ⟨hs, hl⟩ := ih2 m r hr
      obtain ⟨a, ha⟩ := write_int m hs
      obtain ⟨b, hb⟩ := write_int t' h
      simp only [RR.bind_ok, ha, hb]
      split
      · constructor
        · intro p hp; cases hp
        · intro m' r' hm; injection hm with h1 h2; subst h1; subst h2
          exact ⟨by simpa [IntShape] using hs, hl⟩
      · constructor
        · intro p hp; cases hp
        · intro m' r' hm; cases hm
    | err r =>
      constructor
      · intro p hp; cases hp
      · intro m r' hm; cases hm
    | panic p => exact absurd hr (ih1 p)
  | .bytes _ | .trame _ | .comp _ | .dyn _ _ | .opt _ | .array _ _ => simp [IntShape] at h

/-- a component read keeps an integer-like field integer-like (needed by closures that
    look inside a header component) -/
theorem readFields_lookup (fs : List (String × Msg)) :
    ∀ (skip : List String) (ds : List (String × Nat)) (s : Bytes) (fs' : List (String × Msg)) (r : Bytes),
    readFields fs skip ds s = .ok fs' r →
    ∀ sub x, lookupField fs sub = some x → IntShape x = true →
    ∃ x', lookupField fs' sub = some x' ∧ IntShape x' = true := by
  induction fs with
  | nil => intro skip ds s fs' r h sub x hx; simp [lookupField] at hx
  | cons nm fs ih =>
    obtain ⟨n, m⟩ := nm
    intro skip ds s fs' r h sub x hx hint
    unfold readFields at h
    split at h
    · -- skipped: the field keeps its template value
      cases hr : readFields fs skip ds s with
      | ok fs'' r'' =>
        rw [hr] at h; simp only [RR.bind_ok] at h
        injection h with h1 h2; subst h1
        simp only [lookupField] at hx ⊢
        split at hx
        · rename_i hn; injection hx with hx; subst hx
          simp only [hn, if_true]
          exact ⟨m, rfl, hint⟩
        · rename_i hn; simp only [hn, if_false]
          exact ih skip ds s fs'' r'' hr sub x hx hint
      | err e => rw [hr] at h; cases h
      | panic p => rw [hr] at h; cases h
    · -- read
      cases hstep : readStep (fun b => read m b) (lookupSize ds n) s with
      | err e => rw [hstep] at h; cases h
      | panic p => rw [hstep] at h; cases h
      | ok m' r1 =>
        rw [hstep] at h
        simp only [RR.bind_ok] at h
        cases ho : options m' with
        | err e => rw [ho] at h; cases h
        | panic p => rw [ho] at h; cases h
        | ok o =>
          rw [ho] at h; simp only at h
          cases hr : readFields fs (addSkip o skip) (addSize o ds) r1 with
          | err e => rw [hr] at h; cases h
          | panic p => rw [hr] at h; cases h
          | ok fs'' r'' =>
            rw [hr] at h; simp only [RR.bind_ok] at h
            injection h with h1 h2; subst h1
            simp only [lookupField] at hx ⊢
            split at hx
            · rename_i hn; injection hx with hx; subst hx
              simp only [hn, if_true]
              refine ⟨m', rfl, ?_⟩
              -- m' comes from reading the integer-like template m
              cases hl : lookupSize ds n with
              | none =>
                rw [hl] at hstep
                exact ((read_int m hint s).2 m' r1 hstep).1
              | some k =>
                rw [hl] at hstep
                simp only [readStep] at hstep
                cases hk : rdExact k s with
                | ok loc rr =>
                  rw [hk] at hstep; simp only [RR.bind_ok] at hstep
                  cases hm : read m loc with
                  | ok mm rrr =>
                    rw [hm] at hstep; injection hstep with e1 e2; subst e1
                    exact ((read_int m hint loc).2 mm rrr hm).1
                  | err e => rw [hm] at hstep; cases hstep
                  | panic p => rw [hm] at hstep; cases hstep
                | err e => rw [hk] at hstep; cases hstep
                | panic p => rw [hk] at hstep; cases hstep
            · rename_i hn; simp only [hn, if_false]
              exact ih _ _ _ fs'' r'' hr sub x hx hint

/-- outcome of a read on input `s`: no panic; what is left (on success *or* error) is no
    longer than `s`; strictly shorter on success when `strict` -/
def Good {α} (r : RR α) (s : Bytes) (strict : Bool) : Prop :=
  r.NoPanic ∧
  (∀ a rest, r = .ok a rest → rest.length ≤ s.length ∧ (strict = true → rest.length < s.length)) ∧
  (∀ rest, r = .err rest → rest.length ≤ s.length)

theorem good_rdExact (n : Nat) (s : Bytes) (f : Bytes → Msg) :
    Good ((rdExact n s).bind fun b r => RR.ok (f b) r) s (decide (0 < n)) := by
  cases hr : rdExact n s with
  | ok a r =>
    have := rdExact_len hr
    refine ⟨?_, ?_, ?_⟩
    · intro p hp; cases hp
    · intro m r' hm; injection hm with h1 h2; subst h2
      exact ⟨by omega, by intro h; simp at h; omega⟩
    · intro r' hm; cases hm
  | err r =>
    unfold rdExact at hr
    split at hr
    · cases hr
    · injection hr with hr; subst hr
      refine ⟨?_, ?_, ?_⟩
      · intro p hp; cases hp
      · intro m r' hm; cases hm
      · intro r' hm; injection hm with hm; subst hm; simp
  | panic p => exact absurd hr (rdExact_noPanic n s p)

theorem safeT_of_intShape (m : Msg) (h : IntShape m = true) : SafeT m := by
  match m with
  | .u8 _ | .u16 _ _ | .u32 _ _ => simp [SafeT]
  | .check m => simp only [IntShape] at h; simp only [SafeT]; exact Or.inl h
  | .bytes _ | .trame _ | .comp _ | .dyn _ _ | .opt _ | .array _ _ => simp [IntShape] at h

/-- after reading a safe template, evaluating the option closure of the result is defined -/
theorem options_after_read (m : Msg) (h : SafeT m) (b : Bytes) (m' : Msg) (r : Bytes)
    (hr : read m b = .ok m' r) : ∃ o, options m' = .ok o := by
  match m with
  | .u8 _ | .u16 _ _ | .u32 _ _ =>
    simp only [read] at hr
    cases h1 : rdExact _ b with
    | ok a r1 => rw [h1] at hr; simp only [RR.bind_ok] at hr; injection hr with e1 e2; subst e1; exact ⟨.none, rfl⟩
    | err e => rw [h1] at hr; cases hr
    | panic p => rw [h1] at hr; cases hr
  | .bytes bb =>
    simp only [read] at hr
    split at hr
    · injection hr with e1 e2; subst e1; exact ⟨.none, rfl⟩
    · cases h1 : rdExact bb.length b with
      | ok a r1 => rw [h1] at hr; simp only [RR.bind_ok] at hr; injection hr with e1 e2; subst e1; exact ⟨.none, rfl⟩
      | err e => rw [h1] at hr; cases hr
      | panic p => rw [h1] at hr; cases hr
  | .check x =>
    simp only [read] at hr
    cases h1 : read x b with
    | ok a r1 =>
      rw [h1] at hr; simp only [RR.bind_ok] at hr
      split at hr
      · split at hr
        · injection hr with e1 e2; subst e1; exact ⟨.none, rfl⟩
        · cases hr
      · cases hr
    | err e => rw [h1] at hr; cases hr
    | panic p => rw [h1] at hr; cases hr
  | .trame ms =>
    simp only [read] at hr
    cases h1 : readList ms b with
    | ok a r1 => rw [h1] at hr; simp only [RR.bind_ok] at hr; injection hr with e1 e2; subst e1; exact ⟨.none, rfl⟩
    | err e => rw [h1] at hr; cases hr
    | panic p => rw [h1] at hr; cases hr
  | .comp fs =>
    simp only [read] at hr
    cases h1 : readFields fs [] [] b with
    | ok a r1 => rw [h1] at hr; simp only [RR.bind_ok] at hr; injection hr with e1 e2; subst e1; exact ⟨.none, rfl⟩
    | err e => rw [h1] at hr; cases hr
    | panic p => rw [h1] at hr; cases hr
  | .opt none => simp only [read] at hr; injection hr with e1 e2; subst e1; exact ⟨.none, rfl⟩
  | .opt (some x) =>
    simp only [read] at hr
    split at hr
    · injection hr with e1 e2; subst e1; exact ⟨.none, rfl⟩
    · injection hr with e1 e2; subst e1; exact ⟨.none, rfl⟩
    · cases hr
  | .array none _ => simp [SafeT] at h
  | .array (some t) items =>
    simp only [read] at hr
    cases h1 : readArrayLoop (fun b => read t b) (b.length + 1) b [] with
    | ok a r1 => rw [h1] at hr; simp only [RR.bind_ok] at hr; injection hr with e1 e2; subst e1; exact ⟨.none, rfl⟩
    | err e => rw [h1] at hr; cases hr
    | panic p => rw [h1] at hr; cases hr
  | .dyn x f =>
    simp only [SafeT] at h
    obtain ⟨hx, hf⟩ := h
    simp only [read] at hr
    cases h1 : read x b with
    | err e => rw [h1] at hr; cases hr
    | panic p => rw [h1] at hr; cases hr
    | ok x' r1 =>
      rw [h1] at hr; simp only [RR.bind_ok] at hr; injection hr with e1 e2; subst e1
      simp only [options]
      cases f with
      | none => exact ⟨.none, rfl⟩
      | size fld mul add sub =>
        obtain ⟨hi, hsub⟩ := hf
        obtain ⟨v, hv⟩ := intVal_of_intShape x' ((read_int x hi b).2 x' r1 h1).1
        have : ¬ (v * mul + add < sub) := by omega
        exact ⟨.size fld (v * mul + add - sub), by simp [evalOpt, hv, this]⟩
      | sizeSat fld mul add sub =>
        obtain ⟨v, hv⟩ := intVal_of_intShape x' ((read_int x hf b).2 x' r1 h1).1
        exact ⟨.size fld (v * mul + add - sub), by simp [evalOpt, hv]⟩
      | skipIf fld a c =>
        obtain ⟨v, hv⟩ := intVal_of_intShape x' ((read_int x hf b).2 x' r1 h1).1
        simp only [evalOpt, hv]
        split <;> exact ⟨_, rfl⟩
      | sizeOfSub fld sub =>
        match x, hf with
        | .comp fs, hf =>
          obtain ⟨y, hy, hyi⟩ := hf
          simp only [read] at h1
          cases h2 : readFields fs [] [] b with
          | err e => rw [h2] at h1; cases h1
          | panic p => rw [h2] at h1; cases h1
          | ok fs' r2 =>
            rw [h2] at h1; simp only [RR.bind_ok] at h1; injection h1 with e1 e2; subst e1
            obtain ⟨y', hy', hyi'⟩ := readFields_lookup fs [] [] b fs' r2 h2 sub y hy hyi
            obtain ⟨v, hv⟩ := intVal_of_intShape y' hyi'
            exact ⟨.size fld v, by simp [evalOpt, compFields, hy', hv]⟩

theorem good_arrayLoop (rd : Bytes → RR Msg) (hrd : ∀ b, Good (rd b) b true) :
    ∀ (fuel : Nat) (s : Bytes) (acc : List Msg), s.length < fuel →
      Good (readArrayLoop rd fuel s acc) s false := by
  intro fuel
  induction fuel with
  | zero => intro s acc h; omega
  | succ f ih =>
    intro s acc hf
    unfold readArrayLoop
    obtain ⟨h1, h2, h3⟩ := hrd s
    cases hr : rd s with
    | ok e rest =>
      obtain ⟨hle, hlt⟩ := h2 e rest hr
      have hlt' := hlt rfl
      simp only [hlt', if_true]
      obtain ⟨g1, g2, g3⟩ := ih rest (e :: acc) (by omega)
      refine ⟨g1, ?_, ?_⟩
      · intro a r' hh; exact ⟨by have := (g2 a r' hh).1; omega, by intro x; cases x⟩
      · intro r' hh; have := g3 r' hh; omega
    | err rest =>
      refine ⟨?_, ?_, ?_⟩
      · intro p hp; cases hp
      · intro a r' hh; injection hh with e1 e2; subst e2
        exact ⟨h3 rest hr, by intro x; cases x⟩
      · intro r' hh; cases hh
    | panic p => exact absurd hr (h1 p)

theorem good_bind_ok {α β} (r : RR α) (s : Bytes) (st : Bool) (f : α → β) (h : Good r s st) :
    Good (r.bind fun a rest => RR.ok (f a) rest) s st := by
  obtain ⟨h1, h2, h3⟩ := h
  cases hr : r with
  | ok a rest =>
    refine ⟨?_, ?_, ?_⟩
    · intro p hp; cases hp
    · intro b r' hh; injection hh with e1 e2; subst e2; exact h2 a rest hr
    · intro r' hh; cases hh
  | err rest =>
    refine ⟨?_, ?_, ?_⟩
    · intro p hp; cases hp
    · intro b r' hh; cases hh
    · intro r' hh; injection hh with e; subst e; exact h3 rest hr
  | panic p => exact absurd hr (h1 p)

def firstStrict (skip : List String) (ds : List (String × Nat)) : List (String × Msg) → Bool
  | [] => false
  | (n, m) :: _ => Consuming m && !skip.contains n && (lookupSize ds n).isNone

mutual
theorem read_good (t : Msg) (h : SafeT t) (s : Bytes) : Good (read t s) s (Consuming t) := by
  match t with
  | .u8 v => simp only [read, Consuming]; exact good_rdExact 1 s _
  | .u16 e v => simp only [read, Consuming]; exact good_rdExact 2 s _
  | .u32 e v => simp only [read, Consuming]; exact good_rdExact 4 s _
  | .bytes b =>
    simp only [read, Consuming]
    split
    · rename_i hb
      refine ⟨?_, ?_, ?_⟩
      · intro p hp; cases hp
      · intro a r hh; injection hh with e1 e2; subst e2
        exact ⟨by simp, by intro x; simp [hb] at x⟩
      · intro r hh; cases hh
    · rename_i hb
      have := good_rdExact b.length s Msg.bytes
      have e : decide (0 < b.length) = decide (b.length > 0) := rfl
      rw [e] at this; exact this
  | .check m =>
    simp only [SafeT] at h
    have hsafe : SafeT m := by
      rcases h with h | ⟨b, rfl⟩
      · exact safeT_of_intShape m h
      · simp [SafeT]
    obtain ⟨g1, g2, g3⟩ := read_good m hsafe s
    simp only [read, Consuming]
    cases hr : read m s with
    | ok m' r =>
      have hw : (∃ a, write m' = .ok a) ∧ (∃ b, write m = .ok b) := by
        rcases h with h | ⟨b, rfl⟩
        · exact ⟨write_int m' ((read_int m h s).2 m' r hr).1, write_int m h⟩
        · refine ⟨?_, ⟨b, rfl⟩⟩
          simp only [read] at hr
          split at hr
          · injection hr with e1 _; subst e1; exact ⟨_, rfl⟩
          · cases hk : rdExact b.length s with
            | ok a r1 => rw [hk] at hr; simp only [RR.bind_ok] at hr; injection hr with e1 _; subst e1; exact ⟨_, rfl⟩
            | err e => rw [hk] at hr; cases hr
            | panic p => rw [hk] at hr; cases hr
      obtain ⟨⟨a, ha⟩, ⟨b, hb⟩⟩ := hw
      simp only [RR.bind_ok, ha, hb]
      split
      · refine ⟨?_, ?_, ?_⟩
        · intro p hp; cases hp
        · intro x r' hh; injection hh with e1 e2; subst e2; exact g2 m' r hr
        · intro r' hh; cases hh
      · refine ⟨?_, ?_, ?_⟩
        · intro p hp; cases hp
        · intro x r' hh; cases hh
        · intro r' hh; injection hh with e; subst e; exact (g2 m' r hr).1
    | err r =>
      refine ⟨?_, ?_, ?_⟩
      · intro p hp; cases hp
      · intro x r' hh; cases hh
      · intro r' hh; injection hh with e; subst e; exact g3 r hr
    | panic p => exact absurd hr (g1 p)
  | .trame ms =>
    simp only [SafeT] at h
    simp only [read]
    have := readList_good ms h s
    cases ms with
    | nil => simpa [Consuming] using good_bind_ok _ s _ Msg.trame this
    | cons m ms' => simpa [Consuming] using good_bind_ok _ s _ Msg.trame this
  | .comp fs =>
    simp only [SafeT] at h
    simp only [read]
    have := readFields_good fs h [] [] s
    cases fs with
    | nil => simpa [Consuming, firstStrict] using good_bind_ok _ s _ Msg.comp this
    | cons nm fs' =>
      obtain ⟨n, m⟩ := nm
      simpa [Consuming, firstStrict, lookupSize] using good_bind_ok _ s _ Msg.comp this
  | .dyn m f =>
    simp only [SafeT] at h
    simp only [read, Consuming]
    exact good_bind_ok _ s _ (fun m' => Msg.dyn m' f) (read_good m h.1 s)
  | .opt none =>
    simp only [read, Consuming]
    refine ⟨?_, ?_, ?_⟩
    · intro p hp; cases hp
    · intro a r hh; injection hh with e1 e2; subst e2; exact ⟨Nat.le_refl _, by intro x; cases x⟩
    · intro r hh; cases hh
  | .opt (some m) =>
    simp only [SafeT] at h
    obtain ⟨g1, g2, g3⟩ := read_good m h s
    simp only [read, Consuming]
    cases hr : read m s with
    | ok m' r =>
      refine ⟨?_, ?_, ?_⟩
      · intro p hp; cases hp
      · intro a r' hh; injection hh with e1 e2; subst e2; exact ⟨(g2 m' r hr).1, by intro x; cases x⟩
      · intro r' hh; cases hh
    | err r =>
      refine ⟨?_, ?_, ?_⟩
      · intro p hp; cases hp
      · intro a r' hh; injection hh with e1 e2; subst e2; exact ⟨g3 r hr, by intro x; cases x⟩
      · intro r' hh; cases hh
    | panic p => exact absurd hr (g1 p)
  | .array none items => simp [SafeT] at h
  | .array (some t) items =>
    simp only [SafeT] at h
    obtain ⟨ht, hc, _⟩ := h
    simp only [read, Consuming]
    have hel : ∀ b, Good ((fun b => read t b) b) b true := by
      intro b; have := read_good t ht b; rw [hc] at this; exact this
    have := good_arrayLoop (fun b => read t b) hel (s.length + 1) s [] (by omega)
    exact good_bind_ok _ s _ (fun xs => Msg.array (some t) (items ++ xs)) this
theorem readList_good (ts : List Msg) (h : SafeList ts) (s : Bytes) :
    Good (readList ts s) s (match ts with | m :: _ => Consuming m | [] => false) := by
  match ts with
  | [] =>
    simp only [readList]
    refine ⟨?_, ?_, ?_⟩
    · intro p hp; cases hp
    · intro a r hh; injection hh with e1 e2; subst e2; exact ⟨Nat.le_refl _, by intro x; cases x⟩
    · intro r hh; cases hh
  | m :: ms =>
    simp only [SafeList] at h
    obtain ⟨g1, g2, g3⟩ := read_good m h.1 s
    simp only [readList]
    cases hr : read m s with
    | ok m' r =>
      obtain ⟨hle, hlt⟩ := g2 m' r hr
      obtain ⟨k1, k2, k3⟩ := readList_good ms h.2 r
      simp only [RR.bind_ok]
      cases hr2 : readList ms r with
      | ok ms' r' =>
        have := (k2 ms' r' hr2).1
        refine ⟨?_, ?_, ?_⟩
        · intro p hp; cases hp
        · intro a r'' hh; injection hh with e1 e2; subst e2
          exact ⟨by omega, by intro x; have := hlt x; omega⟩
        · intro r'' hh; cases hh
      | err r' =>
        have := k3 r' hr2
        refine ⟨?_, ?_, ?_⟩
        · intro p hp; cases hp
        · intro a r'' hh; cases hh
        · intro r'' hh; injection hh with e; subst e; omega
      | panic p => exact absurd hr2 (k1 p)
    | err r =>
      refine ⟨?_, ?_, ?_⟩
      · intro p hp; cases hp
      · intro a r' hh; cases hh
      · intro r' hh; injection hh with e; subst e; exact g3 r hr
    | panic p => exact absurd hr (g1 p)
theorem readFields_good (fs : List (String × Msg)) (h : SafeFields fs) (skip : List String)
    (ds : List (String × Nat)) (s : Bytes) :
    Good (readFields fs skip ds s) s (firstStrict skip ds fs) := by
  match fs with
  | [] =>
    simp only [readFields, firstStrict]
    refine ⟨?_, ?_, ?_⟩
    · intro p hp; cases hp
    · intro a r hh; injection hh with e1 e2; subst e2; exact ⟨Nat.le_refl _, by intro x; cases x⟩
    · intro r hh; cases hh
  | (n, m) :: fs' =>
    simp only [SafeFields] at h
    unfold readFields
    split
    · -- skipped
      rename_i hsk
      obtain ⟨k1, k2, k3⟩ := readFields_good fs' h.2 skip ds s
      have hst : firstStrict skip ds ((n, m) :: fs') = false := by
        simp only [firstStrict, hsk]; simp
      rw [hst]
      cases hr : readFields fs' skip ds s with
      | ok a r =>
        refine ⟨?_, ?_, ?_⟩
        · intro p hp; cases hp
        · intro b r' hh; injection hh with e1 e2; subst e2; exact ⟨(k2 a r hr).1, by intro x; cases x⟩
        · intro r' hh; cases hh
      | err r =>
        refine ⟨?_, ?_, ?_⟩
        · intro p hp; cases hp
        · intro b r' hh; cases hh
        · intro r' hh; injection hh with e; subst e; exact k3 r hr
      | panic p => exact absurd hr (k1 p)
    · rename_i hsk
      -- the field itself
      have hstep : Good (readStep (fun b => read m b) (lookupSize ds n) s) s
          (Consuming m && (lookupSize ds n).isNone) ∧
          ∀ m' r, readStep (fun b => read m b) (lookupSize ds n) s = .ok m' r → ∃ o, options m' = .ok o := by
        cases hl : lookupSize ds n with
        | none =>
          simp only [readStep, Option.isNone_none, Bool.and_true]
          exact ⟨read_good m h.1 s, fun m' r hh => options_after_read m h.1 s m' r hh⟩
        | some k =>
          simp only [readStep, Option.isNone_some, Bool.and_false]
          cases hk : rdExact k s with
          | ok loc r =>
            have hlen := rdExact_len hk
            obtain ⟨g1, g2, g3⟩ := read_good m h.1 loc
            simp only [RR.bind_ok]
            cases hm : read m loc with
            | ok m' rr =>
              refine ⟨⟨?_, ?_, ?_⟩, ?_⟩
              · intro p hp; cases hp
              · intro a r' hh; injection hh with e1 e2; subst e2; exact ⟨by omega, by intro x; cases x⟩
              · intro r' hh; cases hh
              · intro a r' hh; injection hh with e1 e2; subst e1
                exact options_after_read m h.1 loc m' rr hm
            | err rr =>
              refine ⟨⟨?_, ?_, ?_⟩, ?_⟩
              · intro p hp; cases hp
              · intro a r' hh; cases hh
              · intro r' hh; injection hh with e; subst e; omega
              · intro a r' hh; cases hh
            | panic p => exact absurd hm (g1 p)
          | err r =>
            unfold rdExact at hk
            split at hk
            · cases hk
            · injection hk with hk; subst hk
              refine ⟨⟨?_, ?_, ?_⟩, ?_⟩
              · intro p hp; cases hp
              · intro a r' hh; cases hh
              · intro r' hh; injection hh with e; subst e; simp
              · intro a r' hh; cases hh
          | panic p => exact absurd hk (rdExact_noPanic k s p)
      obtain ⟨⟨g1, g2, g3⟩, hopt⟩ := hstep
      cases hr : readStep (fun b => read m b) (lookupSize ds n) s with
      | ok m' r1 =>
        obtain ⟨o, ho⟩ := hopt m' r1 hr
        obtain ⟨hle, hlt⟩ := g2 m' r1 hr
        simp only [RR.bind_ok, ho]
        obtain ⟨k1, k2, k3⟩ := readFields_good fs' h.2 (addSkip o skip) (addSize o ds) r1
        cases hr2 : readFields fs' (addSkip o skip) (addSize o ds) r1 with
        | ok a r2 =>
          have := (k2 a r2 hr2).1
          refine ⟨?_, ?_, ?_⟩
          · intro p hp; cases hp
          · intro b r' hh; injection hh with e1 e2; subst e2
            refine ⟨by omega, ?_⟩
            intro x
            have hx : (Consuming m && (lookupSize ds n).isNone) = true := by
              simp only [firstStrict, Bool.and_eq_true] at x
              simp [x.1.1, x.2]
            have := hlt hx; omega
          · intro r' hh; cases hh
        | err r2 =>
          have := k3 r2 hr2
          refine ⟨?_, ?_, ?_⟩
          · intro p hp; cases hp
          · intro b r' hh; cases hh
          · intro r' hh; injection hh with e; subst e; omega
        | panic p => exact absurd hr2 (k1 p)
      | err r1 =>
        refine ⟨?_, ?_, ?_⟩
        · intro p hp; cases hp
        · intro b r' hh; cases hh
        · intro r' hh; injection hh with e; subst e; exact g3 r1 hr
      | panic p => exact absurd hr (g1 p)
end

/-- **Totality**: a closure-safe template never panics or spins, on any input. -/
theorem read_noPanic (t : Msg) (h : SafeT t) (s : Bytes) : (read t s).NoPanic := (read_good t h s).1

/-- `Component::read` keeps the field names (and their order) -/
theorem readFields_names (fs : List (String × Msg)) :
    ∀ (skip : List String) (ds : List (String × Nat)) (s : Bytes) (fs' : List (String × Msg)) (r : Bytes),
    readFields fs skip ds s = .ok fs' r → fs'.map Prod.fst = fs.map Prod.fst := by
  induction fs with
  | nil =>
    intro skip ds s fs' r h
    simp only [readFields] at h; injection h with h1 h2; subst h1; rfl
  | cons nm fs ih =>
    obtain ⟨n, m⟩ := nm
    intro skip ds s fs' r h
    unfold readFields at h
    split at h
    · cases hr : readFields fs skip ds s with
      | ok fs'' r'' =>
        rw [hr] at h; simp only [RR.bind_ok] at h
        injection h with h1 h2; subst h1
        simp [ih skip ds s fs'' r'' hr]
      | err e => rw [hr] at h; cases h
      | panic p => rw [hr] at h; cases h
    · cases hstep : readStep (fun b => read m b) (lookupSize ds n) s with
      | err e => rw [hstep] at h; cases h
      | panic p => rw [hstep] at h; cases h
      | ok m' r1 =>
        rw [hstep] at h
        simp only [RR.bind_ok] at h
        cases ho : options m' with
        | err e => rw [ho] at h; cases h
        | panic p => rw [ho] at h; cases h
        | ok o =>
          rw [ho] at h; simp only at h
          cases hr : readFields fs (addSkip o skip) (addSize o ds) r1 with
          | err e => rw [hr] at h; cases h
          | panic p => rw [hr] at h; cases h
          | ok fs'' r'' =>
            rw [hr] at h; simp only [RR.bind_ok] at h
            injection h with h1 h2; subst h1
            simp [ih _ _ _ fs'' r'' hr]

theorem lookupField_of_mem (fs : List (String × Msg)) (n : String) (h : n ∈ fs.map Prod.fst) :
    ∃ m, lookupField fs n = some m := by
  induction fs with
  | nil => simp at h
  | cons km fs ih =>
    obtain ⟨k, v⟩ := km
    simp only [lookupField]
    by_cases hk : k = n
    · exact ⟨v, by simp [hk]⟩
    · simp only [hk, if_false]
      apply ih
      simp only [List.map_cons, List.mem_cons] at h
      rcases h with h | h
      · exact absurd h.symm hk
      · exact h

/-- reading a component template yields a component with the same field names -/
theorem read_comp_names (fs : List (String × Msg)) (s : Bytes) (m : Msg) (r : Bytes)
    (h : read (.comp fs) s = .ok m r) : ∃ fs', m = .comp fs' ∧ fs'.map Prod.fst = fs.map Prod.fst := by
  simp only [read] at h
  cases hr : readFields fs [] [] s with
  | ok fs' r' =>
    rw [hr] at h; simp only [RR.bind_ok] at h; injection h with h1 h2
    exact ⟨fs', h1.symm, readFields_names fs [] [] s fs' r' hr⟩
  | err e => rw [hr] at h; cases h
  | panic p => rw [hr] at h; cases h

/-- where the value of a field comes from after `Component::read`: it is the template's
    value (field skipped) or the result of reading the template's field on some bytes -/
theorem readFields_origin (fs : List (String × Msg)) :
    ∀ (skip : List String) (ds : List (String × Nat)) (s : Bytes) (fs' : List (String × Msg)) (r : Bytes),
    readFields fs skip ds s = .ok fs' r →
    ∀ n v, lookupField fs' n = some v →
      ∃ t, lookupField fs n = some t ∧ (v = t ∨ ∃ b r', read t b = .ok v r') := by
  induction fs with
  | nil =>
    intro skip ds s fs' r h n v hv
    simp only [readFields] at h; injection h with h1 h2; subst h1
    simp [lookupField] at hv
  | cons nm fs ih =>
    obtain ⟨k, m⟩ := nm
    intro skip ds s fs' r h n v hv
    unfold readFields at h
    split at h
    · cases hr : readFields fs skip ds s with
      | ok fs'' r'' =>
        rw [hr] at h; simp only [RR.bind_ok] at h
        injection h with h1 h2; subst h1
        simp only [lookupField] at hv ⊢
        split at hv
        · rename_i hk; injection hv with hv; subst hv
          simp only [hk, if_true]
          exact ⟨m, rfl, Or.inl rfl⟩
        · rename_i hk; simp only [hk, if_false]
          exact ih skip ds s fs'' r'' hr n v hv
      | err e => rw [hr] at h; cases h
      | panic p => rw [hr] at h; cases h
    · cases hstep : readStep (fun b => read m b) (lookupSize ds k) s with
      | err e => rw [hstep] at h; cases h
      | panic p => rw [hstep] at h; cases h
      | ok m' r1 =>
        rw [hstep] at h
        simp only [RR.bind_ok] at h
        cases ho : options m' with
        | err e => rw [ho] at h; cases h
        | panic p => rw [ho] at h; cases h
        | ok o =>
          rw [ho] at h; simp only at h
          cases hr : readFields fs (addSkip o skip) (addSize o ds) r1 with
          | err e => rw [hr] at h; cases h
          | panic p => rw [hr] at h; cases h
          | ok fs'' r'' =>
            rw [hr] at h; simp only [RR.bind_ok] at h
            injection h with h1 h2; subst h1
            simp only [lookupField] at hv ⊢
            split at hv
            · rename_i hk; injection hv with hv; subst hv
              simp only [hk, if_true]
              refine ⟨m, rfl, Or.inr ?_⟩
              cases hl : lookupSize ds k with
              | none => rw [hl] at hstep; exact ⟨s, r1, hstep⟩
              | some kk =>
                rw [hl] at hstep
                simp only [readStep] at hstep
                cases hk2 : rdExact kk s with
                | ok loc rr =>
                  rw [hk2] at hstep; simp only [RR.bind_ok] at hstep
                  cases hm : read m loc with
                  | ok mm rrr =>
                    rw [hm] at hstep; injection hstep with e1 e2; subst e1
                    exact ⟨loc, rrr, hm⟩
                  | err e => rw [hm] at hstep; cases hstep
                  | panic p => rw [hm] at hstep; cases hstep
                | err e => rw [hk2] at hstep; cases hstep
                | panic p => rw [hk2] at hstep; cases hstep
            · rename_i hk; simp only [hk, if_false]
              exact ih _ _ _ fs'' r'' hr n v hv

/-! ### writing -/

mutual
def SafeW : Msg → Prop
  | .check m => SafeW m
  | .trame ms => SafeWList ms
  | .comp fs => SafeWFields fs
  | .dyn m f => SafeW m ∧ SafeOpt f m
  | .opt (some m) => SafeW m
  | .array _ items => SafeWList items
  | _ => True
def SafeWList : List Msg → Prop
  | [] => True
  | m :: ms => SafeW m ∧ SafeWList ms
def SafeWFields : List (String × Msg) → Prop
  | [] => True
  | (_, m) :: fs => SafeW m ∧ SafeWFields fs
end

theorem evalOpt_ok (f : OptFn) (m : Msg) (h : SafeOpt f m) : ∃ o, evalOpt f m = .ok o := by
  cases f with
  | none => exact ⟨.none, rfl⟩
  | size fld mul add sub =>
    obtain ⟨hi, hs⟩ := h
    obtain ⟨v, hv⟩ := intVal_of_intShape m hi
    have : ¬ (v * mul + add < sub) := by omega
    exact ⟨.size fld (v * mul + add - sub), by simp [evalOpt, hv, this]⟩
  | sizeSat fld mul add sub =>
    obtain ⟨v, hv⟩ := intVal_of_intShape m h
    exact ⟨.size fld (v * mul + add - sub), by simp [evalOpt, hv]⟩
  | skipIf fld a c =>
    obtain ⟨v, hv⟩ := intVal_of_intShape m h
    simp only [evalOpt, hv]
    split <;> exact ⟨_, rfl⟩
  | sizeOfSub fld sub =>
    match m, h with
    | .comp fs, h =>
      obtain ⟨y, hy, hyi⟩ := h
      obtain ⟨v, hv⟩ := intVal_of_intShape y hyi
      exact ⟨.size fld v, by simp [evalOpt, compFields, hy, hv]⟩

theorem options_ok (m : Msg) (h : SafeW m) : ∃ o, options m = .ok o := by
  match m with
  | .dyn x f => simp only [SafeW] at h; simpa [options] using evalOpt_ok f x h.2
  | .u8 _ | .u16 _ _ | .u32 _ _ | .bytes _ | .check _ | .trame _ | .comp _ | .opt _ | .array _ _ =>
    exact ⟨.none, rfl⟩

mutual
theorem write_ok (m : Msg) (h : SafeW m) : ∃ b, write m = .ok b := by
  match m with
  | .u8 _ | .u16 _ _ | .u32 _ _ | .bytes _ | .opt none => exact ⟨_, rfl⟩
  | .check x => simp only [SafeW] at h; simpa [write] using write_ok x h
  | .trame ms => simp only [SafeW] at h; simpa [write] using writeList_ok ms h
  | .comp fs => simp only [SafeW] at h; simpa [write] using writeFields_ok fs h []
  | .dyn x f => simp only [SafeW] at h; simpa [write] using write_ok x h.1
  | .opt (some x) => simp only [SafeW] at h; simpa [write] using write_ok x h
  | .array _ items => simp only [SafeW] at h; simpa [write] using writeList_ok items h
theorem writeList_ok (ms : List Msg) (h : SafeWList ms) : ∃ b, writeList ms = .ok b := by
  match ms with
  | [] => exact ⟨[], rfl⟩
  | m :: ms =>
    simp only [SafeWList] at h
    obtain ⟨a, ha⟩ := write_ok m h.1
    obtain ⟨b, hb⟩ := writeList_ok ms h.2
    exact ⟨a ++ b, by simp [writeList, ha, hb]⟩
theorem writeFields_ok (fs : List (String × Msg)) (h : SafeWFields fs) (skip : List String) :
    ∃ b, writeFields fs skip = .ok b := by
  match fs with
  | [] => exact ⟨[], rfl⟩
  | (n, m) :: fs =>
    simp only [SafeWFields] at h
    unfold writeFields
    split
    · exact writeFields_ok fs h.2 skip
    · obtain ⟨a, ha⟩ := write_ok m h.1
      obtain ⟨o, ho⟩ := options_ok m h.1
      obtain ⟨b, hb⟩ := writeFields_ok fs h.2 (addSkip o skip)
      exact ⟨a ++ b, by simp [ha, ho, hb]⟩
end

mutual
theorem length_ok (m : Msg) (h : SafeW m) : ∃ b, length m = .ok b := by
  match m with
  | .u8 _ | .u16 _ _ | .u32 _ _ | .bytes _ | .opt none => exact ⟨_, rfl⟩
  | .check x => simp only [SafeW] at h; simpa [length] using length_ok x h
  | .trame ms => simp only [SafeW] at h; simpa [length] using lengthList_ok ms h
  | .comp fs => simp only [SafeW] at h; simpa [length] using lengthFields_ok fs h []
  | .dyn x f => simp only [SafeW] at h; simpa [length] using length_ok x h.1
  | .opt (some x) => simp only [SafeW] at h; simpa [length] using length_ok x h
  | .array _ items => simp only [SafeW] at h; simpa [length] using lengthList_ok items h
theorem lengthList_ok (ms : List Msg) (h : SafeWList ms) : ∃ b, lengthList ms = .ok b := by
  match ms with
  | [] => exact ⟨0, rfl⟩
  | m :: ms =>
    simp only [SafeWList] at h
    obtain ⟨a, ha⟩ := length_ok m h.1
    obtain ⟨b, hb⟩ := lengthList_ok ms h.2
    exact ⟨a + b, by simp [lengthList, ha, hb]⟩
theorem lengthFields_ok (fs : List (String × Msg)) (h : SafeWFields fs) (skip : List String) :
    ∃ b, lengthFields fs skip = .ok b := by
  match fs with
  | [] => exact ⟨0, rfl⟩
  | (n, m) :: fs =>
    simp only [SafeWFields] at h
    unfold lengthFields
    split
    · exact lengthFields_ok fs h.2 skip
    · obtain ⟨a, ha⟩ := length_ok m h.1
      obtain ⟨o, ho⟩ := options_ok m h.1
      obtain ⟨b, hb⟩ := lengthFields_ok fs h.2 (addSkip o skip)
      exact ⟨a + b, by simp [ha, ho, hb]⟩
end

/-! ### a parsed message is write-safe: `length()` / `write` on it cannot panic -/

theorem arrayLoop_items' (rd : Bytes → RR Msg) :
    ∀ (fuel : Nat) (s : Bytes) (acc xs : List Msg) (r : Bytes),
    readArrayLoop rd fuel s acc = .ok xs r →
    ∀ x ∈ xs, x ∈ acc ∨ ∃ b r', rd b = .ok x r' := by
  intro fuel
  induction fuel with
  | zero => intro s acc xs r h; simp [readArrayLoop] at h
  | succ f ih =>
    intro s acc xs r h x hx
    unfold readArrayLoop at h
    cases hr : rd s with
    | ok e rest =>
      rw [hr] at h; simp only at h
      split at h
      · rcases ih rest (e :: acc) xs r h x hx with h1 | h1
        · simp only [List.mem_cons] at h1
          rcases h1 with h1 | h1
          · subst h1; exact Or.inr ⟨s, rest, hr⟩
          · exact Or.inl h1
        · exact Or.inr h1
      · cases h
    | err rest =>
      rw [hr] at h; simp only at h
      injection h with h1 h2; subst h1
      left; simpa using hx
    | panic p => rw [hr] at h; cases h

theorem safeW_of_intShape (m : Msg) (h : IntShape m = true) : SafeW m := by
  match m with
  | .u8 _ | .u16 _ _ | .u32 _ _ => simp [SafeW]
  | .check m => simp only [IntShape] at h; simpa [SafeW] using safeW_of_intShape m h
  | .bytes _ | .trame _ | .comp _ | .dyn _ _ | .opt _ | .array _ _ => simp [IntShape] at h

theorem safeWList_of_mem (l : List Msg) (h : ∀ x ∈ l, SafeW x) : SafeWList l := by
  induction l with
  | nil => simp [SafeWList]
  | cons a l ih => simp only [SafeWList]; exact ⟨h a (by simp), ih (fun x hx => h x (by simp [hx]))⟩

mutual
/-- a closure-safe template is itself write-safe -/
theorem safeW_of_safeT (t : Msg) (h : SafeT t) : SafeW t := by
  match t with
  | .u8 _ | .u16 _ _ | .u32 _ _ | .bytes _ | .opt none => simp [SafeW]
  | .check m =>
    simp only [SafeT] at h
    rcases h with h | ⟨b, rfl⟩
    · simpa [SafeW] using safeW_of_intShape m h
    · simp [SafeW]
  | .trame ms => simp only [SafeT] at h; simpa [SafeW] using safeWList_of_safeList ms h
  | .comp fs => simp only [SafeT] at h; simpa [SafeW] using safeWFields_of_safeFields fs h
  | .dyn m f => simp only [SafeT] at h; simp only [SafeW]; exact ⟨safeW_of_safeT m h.1, h.2⟩
  | .opt (some m) => simp only [SafeT] at h; simpa [SafeW] using safeW_of_safeT m h
  | .array none _ => simp [SafeT] at h
  | .array (some t) items => simp only [SafeT] at h; obtain ⟨_, _, e⟩ := h; subst e; simp [SafeW, SafeWList]
theorem safeWList_of_safeList (ts : List Msg) (h : SafeList ts) : SafeWList ts := by
  match ts with
  | [] => simp [SafeWList]
  | t :: ts => simp only [SafeList] at h; simp only [SafeWList]; exact ⟨safeW_of_safeT t h.1, safeWList_of_safeList ts h.2⟩
theorem safeWFields_of_safeFields (fs : List (String × Msg)) (h : SafeFields fs) : SafeWFields fs := by
  match fs with
  | [] => simp [SafeWFields]
  | (n, t) :: fs => simp only [SafeFields] at h; simp only [SafeWFields]; exact ⟨safeW_of_safeT t h.1, safeWFields_of_safeFields fs h.2⟩
end

/-- `SafeOpt` survives a read of the inner value -/
theorem safeOpt_after_read (f : OptFn) (x x' : Msg) (hx : SafeT x) (hf : SafeOpt f x) (b r : Bytes)
    (h1 : read x b = .ok x' r) : SafeOpt f x' := by
  cases f with
  | none => trivial
  | size fld mul add sub => exact ⟨((read_int x hf.1 b).2 x' r h1).1, hf.2⟩
  | sizeSat fld mul add sub => exact ((read_int x hf b).2 x' r h1).1
  | skipIf fld a c => exact ((read_int x hf b).2 x' r h1).1
  | sizeOfSub fld sub =>
    match x, hf with
    | .comp fs, hf =>
      obtain ⟨y, hy, hyi⟩ := hf
      simp only [read] at h1
      cases h2 : readFields fs [] [] b with
      | err e => rw [h2] at h1; cases h1
      | panic p => rw [h2] at h1; cases h1
      | ok fs' r2 =>
        rw [h2] at h1; simp only [RR.bind_ok] at h1; injection h1 with e1 e2; subst e1
        exact readFields_lookup fs [] [] b fs' r2 h2 sub y hy hyi

mutual
theorem read_safeW (t : Msg) (h : SafeT t) (s : Bytes) (m : Msg) (r : Bytes) (hr : read t s = .ok m r) : SafeW m := by
  match t with
  | .u8 _ | .u16 _ _ | .u32 _ _ =>
    simp only [read] at hr
    cases h1 : rdExact _ s with
    | ok a r1 => rw [h1] at hr; simp only [RR.bind_ok] at hr; injection hr with e1 _; subst e1; simp [SafeW]
    | err e => rw [h1] at hr; cases hr
    | panic p => rw [h1] at hr; cases hr
  | .bytes bb =>
    simp only [read] at hr
    split at hr
    · injection hr with e1 _; subst e1; simp [SafeW]
    · cases h1 : rdExact bb.length s with
      | ok a r1 => rw [h1] at hr; simp only [RR.bind_ok] at hr; injection hr with e1 _; subst e1; simp [SafeW]
      | err e => rw [h1] at hr; cases hr
      | panic p => rw [h1] at hr; cases hr
  | .check x =>
    simp only [SafeT] at h
    have hsafe : SafeT x := by
      rcases h with h | ⟨b, rfl⟩
      · exact safeT_of_intShape x h
      · simp [SafeT]
    simp only [read] at hr
    cases h1 : read x s with
    | ok a r1 =>
      rw [h1] at hr; simp only [RR.bind_ok] at hr
      split at hr
      · split at hr
        · injection hr with e1 _; subst e1; simpa [SafeW] using read_safeW x hsafe s a r1 h1
        · cases hr
      · cases hr
    | err e => rw [h1] at hr; cases hr
    | panic p => rw [h1] at hr; cases hr
  | .trame ms =>
    simp only [SafeT] at h
    simp only [read] at hr
    cases h1 : readList ms s with
    | ok a r1 => rw [h1] at hr; simp only [RR.bind_ok] at hr; injection hr with e1 _; subst e1
                 simpa [SafeW] using readList_safeW ms h s a r1 h1
    | err e => rw [h1] at hr; cases hr
    | panic p => rw [h1] at hr; cases hr
  | .comp fs =>
    simp only [SafeT] at h
    simp only [read] at hr
    cases h1 : readFields fs [] [] s with
    | ok a r1 => rw [h1] at hr; simp only [RR.bind_ok] at hr; injection hr with e1 _; subst e1
                 simpa [SafeW] using readFields_safeW fs h [] [] s a r1 h1
    | err e => rw [h1] at hr; cases hr
    | panic p => rw [h1] at hr; cases hr
  | .dyn x f =>
    simp only [SafeT] at h
    simp only [read] at hr
    cases h1 : read x s with
    | ok x' r1 =>
      rw [h1] at hr; simp only [RR.bind_ok] at hr; injection hr with e1 _; subst e1
      simp only [SafeW]
      exact ⟨read_safeW x h.1 s x' r1 h1, safeOpt_after_read f x x' h.1 h.2 s r1 h1⟩
    | err e => rw [h1] at hr; cases hr
    | panic p => rw [h1] at hr; cases hr
  | .opt none => simp only [read] at hr; injection hr with e1 _; subst e1; simp [SafeW]
  | .opt (some x) =>
    simp only [SafeT] at h
    simp only [read] at hr
    cases h1 : read x s with
    | ok x' r1 => rw [h1] at hr; simp only at hr; injection hr with e1 _; subst e1
                  simpa [SafeW] using read_safeW x h s x' r1 h1
    | err e => rw [h1] at hr; simp only at hr; injection hr with e1 _; subst e1; simp [SafeW]
    | panic p => rw [h1] at hr; cases hr
  | .array none _ => simp [SafeT] at h
  | .array (some t) items =>
    simp only [SafeT] at h
    obtain ⟨ht, _, hi⟩ := h
    subst hi
    simp only [read] at hr
    cases h1 : readArrayLoop (fun b => read t b) (s.length + 1) s [] with
    | ok xs r1 =>
      rw [h1] at hr; simp only [RR.bind_ok, List.nil_append] at hr; injection hr with e1 _; subst e1
      simp only [SafeW]
      apply safeWList_of_mem
      intro x hx
      rcases arrayLoop_items' _ _ _ _ _ _ h1 x hx with h2 | ⟨b, r', h2⟩
      · simp at h2
      · exact read_safeW t ht b x r' h2
    | err e => rw [h1] at hr; cases hr
    | panic p => rw [h1] at hr; cases hr
theorem readList_safeW (ts : List Msg) (h : SafeList ts) (s : Bytes) (ms : List Msg) (r : Bytes)
    (hr : readList ts s = .ok ms r) : SafeWList ms := by
  match ts with
  | [] => simp only [readList] at hr; injection hr with e1 _; subst e1; simp [SafeWList]
  | t :: ts =>
    simp only [SafeList] at h
    simp only [readList] at hr
    cases h1 : read t s with
    | ok m r1 =>
      rw [h1] at hr; simp only [RR.bind_ok] at hr
      cases h2 : readList ts r1 with
      | ok ms' r2 =>
        rw [h2] at hr; simp only [RR.bind_ok] at hr; injection hr with e1 _; subst e1
        simp only [SafeWList]
        exact ⟨read_safeW t h.1 s m r1 h1, readList_safeW ts h.2 r1 ms' r2 h2⟩
      | err e => rw [h2] at hr; cases hr
      | panic p => rw [h2] at hr; cases hr
    | err e => rw [h1] at hr; cases hr
    | panic p => rw [h1] at hr; cases hr
theorem readFields_safeW (fs : List (String × Msg)) (h : SafeFields fs) (skip : List String)
    (ds : List (String × Nat)) (s : Bytes) (fs' : List (String × Msg)) (r : Bytes)
    (hr : readFields fs skip ds s = .ok fs' r) : SafeWFields fs' := by
  match fs with
  | [] => simp only [readFields] at hr; injection hr with e1 _; subst e1; simp [SafeWFields]
  | (n, m) :: fs =>
    simp only [SafeFields] at h
    unfold readFields at hr
    split at hr
    · cases h1 : readFields fs skip ds s with
      | ok a r1 =>
        rw [h1] at hr; simp only [RR.bind_ok] at hr; injection hr with e1 _; subst e1
        simp only [SafeWFields]
        exact ⟨safeW_of_safeT m h.1, readFields_safeW fs h.2 skip ds s a r1 h1⟩
      | err e => rw [h1] at hr; cases hr
      | panic p => rw [h1] at hr; cases hr
    · cases hstep : readStep (fun b => read m b) (lookupSize ds n) s with
      | err e => rw [hstep] at hr; cases hr
      | panic p => rw [hstep] at hr; cases hr
      | ok m' r1 =>
        rw [hstep] at hr; simp only [RR.bind_ok] at hr
        have hm' : SafeW m' := by
          cases hl : lookupSize ds n with
          | none => rw [hl] at hstep; exact read_safeW m h.1 s m' r1 hstep
          | some k =>
            rw [hl] at hstep
            simp only [readStep] at hstep
            cases hk : rdExact k s with
            | ok loc rr =>
              rw [hk] at hstep; simp only [RR.bind_ok] at hstep
              cases hm : read m loc with
              | ok mm rrr => rw [hm] at hstep; injection hstep with e1 _; subst e1; exact read_safeW m h.1 loc mm rrr hm
              | err e => rw [hm] at hstep; cases hstep
              | panic p => rw [hm] at hstep; cases hstep
            | err e => rw [hk] at hstep; cases hstep
            | panic p => rw [hk] at hstep; cases hstep
        cases ho : options m' with
        | err e => rw [ho] at hr; cases hr
        | panic p => rw [ho] at hr; cases hr
        | ok o =>
          rw [ho] at hr; simp only at hr
          cases h2 : readFields fs (addSkip o skip) (addSize o ds) r1 with
          | ok a r2 =>
            rw [h2] at hr; simp only [RR.bind_ok] at hr; injection hr with e1 _; subst e1
            simp only [SafeWFields]
            exact ⟨hm', readFields_safeW fs h.2 _ _ r1 a r2 h2⟩
          | err e => rw [h2] at hr; cases hr
          | panic p => rw [h2] at hr; cases hr
end

end Rdp
