import RdpModel.Base.Bytes
/-
  Model of src/model/data.rs: the `Message` combinators.

  `Msg` mirrors the Rust types implementing `Message`: u8, U16/U32 (either endianness),
  Vec<u8>, Check<T>, Trame, Component (ordered fields), DynOption<T> (closure
  defunctionalised as `OptFn`), Option<T>, Array<T> (factory = template).
  `write`, `length`, `options`, `read` follow the Rust line by line:
    * Component::write/length maintain the `filtering_key` set; Component::read also the
      `dynamic_size` map, a sized field being read from a private cursor whose leftover
      bytes are dropped;
    * Vec<u8> of length 0 reads to the end, otherwise exactly its length;
    * Option<T>::read swallows an error (not a panic);
    * Array<T>::read loops until an element fails;
    * readers are `Cursor`s: a failed `read_exact` leaves the cursor at its end, any other
      error (Check mismatch) leaves it where it was — so `read` returns the remaining
      bytes on error too.
-/
namespace Rdp

/-- result of a read on a cursor: value + remaining bytes, error + remaining bytes, panic -/
inductive RR (α : Type) where
  | ok (a : α) (rest : Bytes)
  | err (rest : Bytes)
  | panic (site : String)
deriving Repr

namespace RR
@[inline] def bind {α β} (x : RR α) (f : α → Bytes → RR β) : RR β :=
  match x with
  | .ok a r => f a r
  | .err r => .err r
  | .panic s => .panic s
@[simp] theorem bind_ok {α β} (a : α) (r : Bytes) (f : α → Bytes → RR β) : (RR.ok a r).bind f = f a r := rfl
@[simp] theorem bind_err {α β} (r : Bytes) (f : α → Bytes → RR β) : (RR.err r : RR α).bind f = .err r := rfl
@[simp] theorem bind_panic {α β} (s : String) (f : α → Bytes → RR β) : (RR.panic s : RR α).bind f = .panic s := rfl
def NoPanic {α} (r : RR α) : Prop := ∀ s, r ≠ .panic s
def isPanic {α} : RR α → Bool | .panic _ => true | _ => false
end RR

/-- defunctionalised `DynOption` closures found in the repository -/
inductive OptFn where
  | none
  /-- `Size(field, v*mul + add - sub)`; usize underflow panics -/
  | size (field : String) (mul add sub : Nat)
  /-- `Size(field, (v*mul + add).saturating_sub(sub))` -/
  | sizeSat (field : String) (mul add sub : Nat)
  /-- `SkipField(field)` iff `(v & needSet) == 0 || (v & needClear) != 0` -/
  | skipIf (field : String) (needSet needClear : Nat)
  /-- inner is a component: `Size(field, inner[sub] as U16)`; `unwrap` panics if not an integer -/
  | sizeOfSub (field : String) (sub : String)
deriving Repr, DecidableEq

inductive MOpt where
  | none
  | skip (f : String)
  | size (f : String) (n : Nat)
deriving Repr, DecidableEq

inductive Msg where
  | u8 (v : Nat)
  | u16 (e : Endian) (v : Nat)
  | u32 (e : Endian) (v : Nat)
  | bytes (b : Bytes)
  | check (m : Msg)
  | trame (ms : List Msg)
  | comp (fs : List (String × Msg))
  | dyn (m : Msg) (f : OptFn)
  | opt (o : Option Msg)
  /-- `tmpl = none`: `Array::from_trame` (its factory panics) -/
  | array (tmpl : Option Msg) (items : List Msg)
deriving Repr

/-- `visit()` as an integer (through Check / DynOption / Option wrappers) -/
def intVal : Msg → Option Nat
  | .u8 v => some v
  | .u16 _ v => some v
  | .u32 _ v => some v
  | .dyn m _ => intVal m
  | .check m => intVal m
  | .opt (some m) => intVal m
  | _ => none

def lookupField (fs : List (String × Msg)) (n : String) : Option Msg :=
  match fs with
  | [] => none
  | (k, v) :: t => if k = n then some v else lookupField t n

/-- fields of a component seen through wrappers (`cast!(DataType::Component, …)`) -/
def compFields : Msg → Option (List (String × Msg))
  | .comp fs => some fs
  | .dyn m _ => compFields m
  | .check m => compFields m
  | .opt (some m) => compFields m
  | _ => none

def evalOpt (f : OptFn) (m : Msg) : Outcome MOpt :=
  match f with
  | .none => .ok .none
  | .size fld mul add sub =>
    match intVal m with
    | some v => if v * mul + add < sub then .panic "usize underflow in DynOption closure" else .ok (.size fld (v * mul + add - sub))
    | none => .panic "closure applied to a non-integer"
  | .sizeSat fld mul add sub =>
    match intVal m with
    | some v => .ok (.size fld (v * mul + add - sub))
    | none => .panic "closure applied to a non-integer"
  | .skipIf fld needSet needClear =>
    match intVal m with
    | some v => if v &&& needSet = 0 ∨ v &&& needClear ≠ 0 then .ok (.skip fld) else .ok .none
    | none => .panic "closure applied to a non-integer"
  | .sizeOfSub fld sub =>
    match compFields m with
    | some fs =>
      match (lookupField fs sub).bind intVal with
      | some v => .ok (.size fld v)
      | none => .panic "unwrap on InvalidCast in DynOption closure"
    | none => .panic "closure applied to a non-component"

/-- `Message::options()` -/
def options : Msg → Outcome MOpt
  | .dyn m f => evalOpt f m
  | _ => .ok .none

def addSkip (o : MOpt) (skip : List String) : List String :=
  match o with
  | .skip f => f :: skip
  | _ => skip

/-- `HashMap::insert`: a later size for the same field replaces the earlier one -/
def addSize (o : MOpt) (ds : List (String × Nat)) : List (String × Nat) :=
  match o with
  | .size f k => (f, k) :: ds
  | _ => ds

def lookupSize (ds : List (String × Nat)) (n : String) : Option Nat :=
  match ds with
  | [] => none
  | (k, v) :: t => if k = n then some v else lookupSize t n

/-! ### write / length -/

mutual
/-- `Message::write` into a growable buffer (never fails there); a panicking option
    closure panics -/
def write : Msg → Outcome Bytes
  | .u8 v => .ok [UInt8.ofNat v]
  | .u16 e v => .ok (encInt e 2 v)
  | .u32 e v => .ok (encInt e 4 v)
  | .bytes b => .ok b
  | .check m => write m
  | .trame ms => writeList ms
  | .comp fs => writeFields fs []
  | .dyn m _ => write m
  | .opt none => .ok []
  | .opt (some m) => write m
  | .array _ items => writeList items
def writeList : List Msg → Outcome Bytes
  | [] => .ok []
  | m :: ms => (write m).bind fun a => (writeList ms).bind fun b => .ok (a ++ b)
def writeFields : List (String × Msg) → List String → Outcome Bytes
  | [], _ => .ok []
  | (n, m) :: fs, skip =>
    if skip.contains n then writeFields fs skip
    else (write m).bind fun a => (options m).bind fun o =>
      (writeFields fs (addSkip o skip)).bind fun b => .ok (a ++ b)
end

mutual
/-- `Message::length` -/
def length : Msg → Outcome Nat
  | .u8 _ => .ok 1
  | .u16 _ _ => .ok 2
  | .u32 _ _ => .ok 4
  | .bytes b => .ok b.length
  | .check m => length m
  | .trame ms => lengthList ms
  | .comp fs => lengthFields fs []
  | .dyn m _ => length m
  | .opt none => .ok 0
  | .opt (some m) => length m
  | .array _ items => lengthList items
def lengthList : List Msg → Outcome Nat
  | [] => .ok 0
  | m :: ms => (length m).bind fun a => (lengthList ms).bind fun b => .ok (a + b)
def lengthFields : List (String × Msg) → List String → Outcome Nat
  | [], _ => .ok 0
  | (n, m) :: fs, skip =>
    if skip.contains n then lengthFields fs skip
    else (options m).bind fun o => (length m).bind fun a =>
      (lengthFields fs (addSkip o skip)).bind fun b => .ok (a + b)
end

/-! ### read -/

/-- `read_exact(n)` on a cursor: EOF puts the cursor at its end -/
def rdExact (n : Nat) (s : Bytes) : RR Bytes :=
  if n ≤ s.length then .ok (s.take n) (s.drop n) else .err []

/-- `Array::read` loop around an element reader.  `fuel` = remaining length + 1; an
    element that succeeds without consuming anything would loop forever in Rust. -/
def readArrayLoop (readElem : Bytes → RR Msg) : Nat → Bytes → List Msg → RR (List Msg)
  | 0, _, _ => .panic "spin: Array::read element consumed nothing"
  | fuel+1, s, acc =>
    match readElem s with
    | .ok e rest =>
      if rest.length < s.length then readArrayLoop readElem fuel rest (e :: acc)
      else .panic "spin: Array::read element consumed nothing"
    | .err rest => .ok acc.reverse rest     -- `Option` swallowed the error: loop ends
    | .panic p => .panic p

/-- one field of `Component::read`: a field named in `dynamic_size` is read from a private
    cursor over exactly that many bytes (leftover dropped), otherwise from the stream -/
def readStep (rd : Bytes → RR Msg) (size : Option Nat) (s : Bytes) : RR Msg :=
  match size with
  | some k =>
    (rdExact k s).bind fun loc r =>
      match rd loc with
      | .ok m' _ => .ok m' r
      | .err _ => .err r
      | .panic p => .panic p
  | none => rd s

mutual
def read : Msg → Bytes → RR Msg
  | .u8 _, s => (rdExact 1 s).bind fun b r => .ok (.u8 (leNat b)) r
  | .u16 e _, s => (rdExact 2 s).bind fun b r => .ok (.u16 e (decInt e b)) r
  | .u32 e _, s => (rdExact 4 s).bind fun b r => .ok (.u32 e (decInt e b)) r
  | .bytes b, s =>
    if b.length = 0 then .ok (.bytes s) []
    else (rdExact b.length s).bind fun x r => .ok (.bytes x) r
  | .check m, s =>
    (read m s).bind fun m' r =>
      match write m', write m with
      | .ok a, .ok b => if a = b then .ok (.check m') r else .err r
      | _, _ => .panic "write in Check compare"
  | .trame ms, s => (readList ms s).bind fun ms' r => .ok (.trame ms') r
  | .comp fs, s => (readFields fs [] [] s).bind fun fs' r => .ok (.comp fs') r
  | .dyn m f, s => (read m s).bind fun m' r => .ok (.dyn m' f) r
  | .opt none, s => .ok (.opt none) s
  | .opt (some m), s =>
    match read m s with
    | .ok m' r => .ok (.opt (some m')) r
    | .err r => .ok (.opt none) r
    | .panic p => .panic p
  | .array none _, _ => .panic "Try reading a non empty array"
  | .array (some t) items, s =>
    (readArrayLoop (fun b => read t b) (s.length + 1) s []).bind fun xs r =>
      .ok (.array (some t) (items ++ xs)) r
def readList : List Msg → Bytes → RR (List Msg)
  | [], s => .ok [] s
  | m :: ms, s =>
    (read m s).bind fun m' r => (readList ms r).bind fun ms' r' => .ok (m' :: ms') r'
def readFields : List (String × Msg) → List String → List (String × Nat) → Bytes →
    RR (List (String × Msg))
  | [], _, _, s => .ok [] s
  | (n, m) :: fs, skip, ds, s =>
    if skip.contains n then
      (readFields fs skip ds s).bind fun fs' r => .ok ((n, m) :: fs') r
    else
      (readStep (fun b => read m b) (lookupSize ds n) s).bind fun m' r =>
        match options m' with
        | .ok o => (readFields fs (addSkip o skip) (addSize o ds) r).bind fun fs' r' => .ok ((n, m') :: fs') r'
        | .err _ => .panic "options"
        | .panic p => .panic p
end

/-! ### canonical dump (what `visit()` shows) -/

mutual
def dump : Msg → String
  | .u8 v => "B" ++ toString v
  | .u16 _ v => "H" ++ toString v
  | .u32 _ v => "W" ++ toString v
  | .bytes b => "X" ++ hexOrDash b
  | .check m => dump m
  | .trame ms => "T(" ++ dumpList ms ++ ")"
  | .comp fs => "K(" ++ dumpFields fs ++ ")"
  | .dyn m _ => dump m
  | .opt none => "N"
  | .opt (some m) => dump m
  | .array _ items => "T(" ++ dumpList items ++ ")"
def dumpList : List Msg → String
  | [] => ""
  | [m] => dump m
  | m :: ms => dump m ++ "," ++ dumpList ms
def dumpFields : List (String × Msg) → String
  | [] => ""
  | [(n, m)] => n ++ "=" ++ dump m
  | (n, m) :: fs => n ++ "=" ++ dump m ++ "," ++ dumpFields fs
end

end Rdp
