import RdpModel.Base.Bytes
/-
  Executable MD4 (RFC 1320), MD5 (RFC 1321), HMAC-MD5 (RFC 2104) and RC4, so that the
  driver can reproduce NTLM tokens byte for byte.  Theorems about the protocol logic are
  stated over an abstract `Crypto` structure; these concrete functions are compared with
  the md4 / md-5 / hmac crates and src/nla/rc4.rs on every run.
-/
namespace Rdp.Crypto
open Rdp

def rotl (x : UInt32) (n : UInt32) : UInt32 := (x <<< n) ||| (x >>> (32 - n))

def le32 (x : UInt32) : Bytes :=
  [x.toUInt8, (x >>> 8).toUInt8, (x >>> 16).toUInt8, (x >>> 24).toUInt8]

def word (b : Bytes) : UInt32 :=
  match b with
  | [a, b, c, d] => a.toUInt32 ||| (b.toUInt32 <<< 8) ||| (c.toUInt32 <<< 16) ||| (d.toUInt32 <<< 24)
  | _ => 0

/-- MD padding: 0x80, zeros to 56 mod 64, 64-bit little-endian bit length -/
def mdPad (m : Bytes) : Bytes :=
  let l := m.length
  let k := (55 + 64 - l % 64) % 64
  m ++ [0x80] ++ List.replicate k 0 ++ (leBytes (l * 8) 8)

def chunks (n : Nat) : Nat → Bytes → List Bytes
  | 0, _ => []
  | f+1, b => if b.isEmpty then [] else b.take n :: chunks n f (b.drop n)

def blockWords (blk : Bytes) : Array UInt32 :=
  ((chunks 4 16 blk).map word).toArray

/-! ### MD4 -/

def md4Round (x : Array UInt32) (s : UInt32 × UInt32 × UInt32 × UInt32) : UInt32 × UInt32 × UInt32 × UInt32 :=
  let f := fun (x y z : UInt32) => (x &&& y) ||| ((~~~ x) &&& z)
  let g := fun (x y z : UInt32) => (x &&& y) ||| (x &&& z) ||| (y &&& z)
  let hh := fun (x y z : UInt32) => x ^^^ y ^^^ z
  let (a0, b0, c0, d0) := s
  let op := fun (fn : UInt32 → UInt32 → UInt32 → UInt32) (k : UInt32) (a b c d : UInt32) (i : Nat) (sh : UInt32) =>
    rotl (a + fn b c d + x[i]! + k) sh
  -- round 1
  let r1 := fun (s : UInt32 × UInt32 × UInt32 × UInt32) (i : Nat) =>
    let (a, b, c, d) := s
    let a := op f 0 a b c d (i) 3
    let d := op f 0 d a b c (i+1) 7
    let c := op f 0 c d a b (i+2) 11
    let b := op f 0 b c d a (i+3) 19
    (a, b, c, d)
  let s1 := [0, 4, 8, 12].foldl r1 (a0, b0, c0, d0)
  let r2 := fun (s : UInt32 × UInt32 × UInt32 × UInt32) (i : Nat) =>
    let (a, b, c, d) := s
    let a := op g 0x5a827999 a b c d (i) 3
    let d := op g 0x5a827999 d a b c (i+4) 5
    let c := op g 0x5a827999 c d a b (i+8) 9
    let b := op g 0x5a827999 b c d a (i+12) 13
    (a, b, c, d)
  let s2 := [0, 1, 2, 3].foldl r2 s1
  let r3 := fun (s : UInt32 × UInt32 × UInt32 × UInt32) (i : Nat) =>
    let (a, b, c, d) := s
    let a := op hh 0x6ed9eba1 a b c d (i) 3
    let d := op hh 0x6ed9eba1 d a b c (i+8) 9
    let c := op hh 0x6ed9eba1 c d a b (i+4) 11
    let b := op hh 0x6ed9eba1 b c d a (i+12) 15
    (a, b, c, d)
  let (a, b, c, d) := [0, 2, 1, 3].foldl r3 s2
  (a0 + a, b0 + b, c0 + c, d0 + d)

def md4 (m : Bytes) : Bytes :=
  let p := mdPad m
  let blocks := chunks 64 (p.length / 64 + 1) p
  let (a, b, c, d) := blocks.foldl (fun s blk => md4Round (blockWords blk) s)
    (0x67452301, 0xefcdab89, 0x98badcfe, 0x10325476)
  le32 a ++ le32 b ++ le32 c ++ le32 d

/-! ### MD5 -/

def md5S : Array UInt32 := #[
  7, 12, 17, 22, 7, 12, 17, 22, 7, 12, 17, 22, 7, 12, 17, 22,
  5, 9, 14, 20, 5, 9, 14, 20, 5, 9, 14, 20, 5, 9, 14, 20,
  4, 11, 16, 23, 4, 11, 16, 23, 4, 11, 16, 23, 4, 11, 16, 23,
  6, 10, 15, 21, 6, 10, 15, 21, 6, 10, 15, 21, 6, 10, 15, 21]

def md5K : Array UInt32 := #[
  0xd76aa478, 0xe8c7b756, 0x242070db, 0xc1bdceee, 0xf57c0faf, 0x4787c62a, 0xa8304613, 0xfd469501,
  0x698098d8, 0x8b44f7af, 0xffff5bb1, 0x895cd7be, 0x6b901122, 0xfd987193, 0xa679438e, 0x49b40821,
  0xf61e2562, 0xc040b340, 0x265e5a51, 0xe9b6c7aa, 0xd62f105d, 0x02441453, 0xd8a1e681, 0xe7d3fbc8,
  0x21e1cde6, 0xc33707d6, 0xf4d50d87, 0x455a14ed, 0xa9e3e905, 0xfcefa3f8, 0x676f02d9, 0x8d2a4c8a,
  0xfffa3942, 0x8771f681, 0x6d9d6122, 0xfde5380c, 0xa4beea44, 0x4bdecfa9, 0xf6bb4b60, 0xbebfbc70,
  0x289b7ec6, 0xeaa127fa, 0xd4ef3085, 0x04881d05, 0xd9d4d039, 0xe6db99e5, 0x1fa27cf8, 0xc4ac5665,
  0xf4292244, 0x432aff97, 0xab9423a7, 0xfc93a039, 0x655b59c3, 0x8f0ccc92, 0xffeff47d, 0x85845dd1,
  0x6fa87e4f, 0xfe2ce6e0, 0xa3014314, 0x4e0811a1, 0xf7537e82, 0xbd3af235, 0x2ad7d2bb, 0xeb86d391]

def md5Round (x : Array UInt32) (s : UInt32 × UInt32 × UInt32 × UInt32) : UInt32 × UInt32 × UInt32 × UInt32 :=
  let (a0, b0, c0, d0) := s
  let step := fun (s : UInt32 × UInt32 × UInt32 × UInt32) (i : Nat) =>
    let (a, b, c, d) := s
    let (f, g) :=
      if i < 16 then ((b &&& c) ||| ((~~~ b) &&& d), i)
      else if i < 32 then ((d &&& b) ||| ((~~~ d) &&& c), (5 * i + 1) % 16)
      else if i < 48 then (b ^^^ c ^^^ d, (3 * i + 5) % 16)
      else (c ^^^ (b ||| (~~~ d)), (7 * i) % 16)
    let f2 := f + a + md5K[i]! + x[g]!
    (d, b + rotl f2 md5S[i]!, b, c)
  let (a, b, c, d) := (List.range 64).foldl step (a0, b0, c0, d0)
  (a0 + a, b0 + b, c0 + c, d0 + d)

def md5 (m : Bytes) : Bytes :=
  let p := mdPad m
  let blocks := chunks 64 (p.length / 64 + 1) p
  let (a, b, c, d) := blocks.foldl (fun s blk => md5Round (blockWords blk) s)
    (0x67452301, 0xefcdab89, 0x98badcfe, 0x10325476)
  le32 a ++ le32 b ++ le32 c ++ le32 d

/-- HMAC-MD5 (block size 64) -/
def hmacMd5 (key data : Bytes) : Bytes :=
  let k0 := if key.length > 64 then md5 key else key
  let k := k0 ++ List.replicate (64 - k0.length) 0
  let ipad := k.map (· ^^^ 0x36)
  let opad := k.map (· ^^^ 0x5c)
  md5 (opad ++ md5 (ipad ++ data))

/-! ### RC4 (src/nla/rc4.rs) -/

structure Rc4 where
  i : UInt8
  j : UInt8
  state : Array UInt8

def Rc4.swap (a : Array UInt8) (i j : Nat) : Array UInt8 :=
  let x := a[i]!
  let y := a[j]!
  (a.set! i y).set! j x

/-- key scheduling; the Rust code asserts 1 ≤ |key| ≤ 256 -/
def Rc4.new (key : Bytes) : Outcome Rc4 :=
  if key.length < 1 ∨ key.length > 256 then .panic "rc4.rs: assert key length" else
  let ka := key.toArray
  let init : Array UInt8 := (Array.range 256).map UInt8.ofNat
  let (st, _) := (List.range 256).foldl (fun (acc : Array UInt8 × UInt8) i =>
      let (st, j) := acc
      let j := j + st[i]! + ka[i % ka.size]!
      (Rc4.swap st i j.toNat, j)) (init, 0)
  .ok ⟨0, 0, st⟩

def Rc4.next (r : Rc4) : UInt8 × Rc4 :=
  let i := r.i + 1
  let j := r.j + r.state[i.toNat]!
  let st := Rc4.swap r.state i.toNat j.toNat
  let k := st[(st[i.toNat]! + st[j.toNat]!).toNat]!
  (k, ⟨i, j, st⟩)

/-- `process`: XOR with the keystream; the state advances by |input| -/
def Rc4.process (r : Rc4) : Bytes → Bytes × Rc4
  | [] => ([], r)
  | x :: xs =>
    let (k, r') := r.next
    let (ys, r'') := Rc4.process r' xs
    ((x ^^^ k) :: ys, r'')

end Rdp.Crypto
