import RdpModel.Base.Outcome
/-
  Byte strings (`List UInt8`), little/big-endian integer codecs, hex I/O for the driver.
-/
namespace Rdp

abbrev Bytes := List UInt8

inductive Endian | le | be
deriving Repr, DecidableEq

def leBytes (n : Nat) : Nat → Bytes
  | 0 => []
  | k+1 => UInt8.ofNat (n % 256) :: leBytes (n / 256) k

def leNat : Bytes → Nat
  | [] => 0
  | b :: bs => b.toNat + 256 * leNat bs

def beNat (b : Bytes) : Nat := leNat b.reverse

def encInt (e : Endian) (w v : Nat) : Bytes :=
  match e with
  | .le => leBytes v w
  | .be => (leBytes v w).reverse

def decInt (e : Endian) (b : Bytes) : Nat :=
  match e with
  | .le => leNat b
  | .be => leNat b.reverse

@[simp] theorem leBytes_length (n w : Nat) : (leBytes n w).length = w := by
  induction w generalizing n with
  | zero => simp [leBytes]
  | succ k ih => simp [leBytes, ih]

theorem leNat_leBytes (w n : Nat) (h : n < 256 ^ w) : leNat (leBytes n w) = n := by
  induction w generalizing n with
  | zero => simp [leBytes, leNat] at *; omega
  | succ k ih =>
    simp [leBytes, leNat]
    have : n / 256 < 256 ^ k := by rw [Nat.pow_succ] at h; omega
    rw [ih _ this]; omega

theorem leNat_lt (b : Bytes) : leNat b < 256 ^ b.length := by
  induction b with
  | nil => simp [leNat]
  | cons x xs ih =>
    simp only [leNat, List.length_cons, Nat.pow_succ]
    have := x.toNat_lt
    omega

theorem leBytes_leNat (b : Bytes) : leBytes (leNat b) b.length = b := by
  induction b with
  | nil => simp [leBytes]
  | cons x xs ih =>
    simp only [leNat, List.length_cons, leBytes]
    have hx := x.toNat_lt
    have h1 : (x.toNat + 256 * leNat xs) % 256 = x.toNat := by omega
    have h2 : (x.toNat + 256 * leNat xs) / 256 = leNat xs := by omega
    rw [h1, h2, ih]
    simp

@[simp] theorem encInt_length (e : Endian) (w v : Nat) : (encInt e w v).length = w := by
  cases e <;> simp [encInt]

theorem decInt_encInt (e : Endian) (w v : Nat) (h : v < 256 ^ w) : decInt e (encInt e w v) = v := by
  cases e <;> simp [encInt, decInt, leNat_leBytes _ _ h]

theorem decInt_lt (e : Endian) (b : Bytes) : decInt e b < 256 ^ b.length := by
  cases e
  · exact leNat_lt b
  · simpa [decInt] using leNat_lt b.reverse

theorem encInt_decInt (e : Endian) (b : Bytes) : encInt e b.length (decInt e b) = b := by
  cases e
  · exact leBytes_leNat b
  · simp only [encInt, decInt]
    have := leBytes_leNat b.reverse
    simp only [List.length_reverse] at this
    rw [this]; simp

/-- `read_exact` on a cursor: exactly `n` bytes or EOF error -/
def takeExact (n : Nat) (s : Bytes) : Outcome (Bytes × Bytes) :=
  if n ≤ s.length then .ok (s.take n, s.drop n) else .err "eof"

@[simp] theorem takeExact_append (a r : Bytes) : takeExact a.length (a ++ r) = .ok (a, r) := by
  simp [takeExact]

theorem takeExact_append' (n : Nat) (a r : Bytes) (h : a.length = n) :
    takeExact n (a ++ r) = .ok (a, r) := by
  subst h; simp

theorem takeExact_ok {n : Nat} {s a r : Bytes} (h : takeExact n s = .ok (a, r)) :
    s = a ++ r ∧ a.length = n := by
  unfold takeExact at h
  split at h
  · rename_i hn
    injection h with h; injection h with h1 h2
    subst h1; subst h2
    simp [List.length_take]; omega
  · cases h

theorem takeExact_noPanic (n : Nat) (s : Bytes) : (takeExact n s).NoPanic := by
  unfold takeExact; split <;> simp

/-! ### hex -/

def hexDigit (n : Nat) : Char :=
  if n < 10 then Char.ofNat (48 + n) else Char.ofNat (87 + n)

def toHex (b : Bytes) : String :=
  String.ofList (b.flatMap fun x => [hexDigit (x.toNat / 16), hexDigit (x.toNat % 16)])

def hexVal (c : Char) : Option Nat :=
  if '0' ≤ c ∧ c ≤ '9' then some (c.toNat - 48)
  else if 'a' ≤ c ∧ c ≤ 'f' then some (c.toNat - 87)
  else if 'A' ≤ c ∧ c ≤ 'F' then some (c.toNat - 55)
  else none

def ofHexChars : List Char → Option Bytes
  | [] => some []
  | [_] => none
  | a :: b :: rest => do
    let x ← hexVal a
    let y ← hexVal b
    let r ← ofHexChars rest
    pure (UInt8.ofNat (x * 16 + y) :: r)

/-- "-" denotes the empty string so that every field of a case line is non-empty -/
def ofHex (s : String) : Option Bytes :=
  if s = "-" then some [] else ofHexChars s.toList

def hexOrDash (b : Bytes) : String := if b.isEmpty then "-" else toHex b

end Rdp
