/-
  Outcome monad shared by every model: a model function returns a value, an error
  (the Rust `Err`), or a *panic* with the site that raised it (arithmetic overflow in
  the dev profile, index out of range, `unwrap` on `None`, explicit `panic!`, or `spin`
  for a loop that would not terminate).  Nothing in a model is totalised silently.
-/
namespace Rdp

inductive Outcome (α : Type) where
  | ok (a : α)
  | err (e : String)
  | panic (site : String)
deriving Repr, DecidableEq

namespace Outcome

@[inline] def bind {α β} (x : Outcome α) (f : α → Outcome β) : Outcome β :=
  match x with
  | .ok a => f a
  | .err e => .err e
  | .panic s => .panic s

instance : Monad Outcome where
  pure := .ok
  bind := Outcome.bind

@[simp] theorem ok_bind {α β} (a : α) (f : α → Outcome β) : (Outcome.ok a >>= f) = f a := rfl
@[simp] theorem err_bind {α β} (e : String) (f : α → Outcome β) : (Outcome.err e >>= f) = .err e := rfl
@[simp] theorem panic_bind {α β} (e : String) (f : α → Outcome β) : (Outcome.panic e >>= f) = .panic e := rfl
@[simp] theorem pure_eq {α} (a : α) : (pure a : Outcome α) = .ok a := rfl
@[simp] theorem bind_ok {α β} (a : α) (f : α → Outcome β) : Outcome.bind (.ok a) f = f a := rfl
@[simp] theorem bind_err {α β} (e : String) (f : α → Outcome β) : Outcome.bind (.err e) f = .err e := rfl
@[simp] theorem bind_panic {α β} (e : String) (f : α → Outcome β) : Outcome.bind (.panic e) f = .panic e := rfl

/-- "returns a value or an error": never a panic. -/
def NoPanic {α} (r : Outcome α) : Prop := ∀ s, r ≠ .panic s

def isPanic {α} : Outcome α → Bool
  | .panic _ => true
  | _ => false

def isOk {α} : Outcome α → Bool
  | .ok _ => true
  | _ => false

def isErr {α} : Outcome α → Bool
  | .err _ => true
  | _ => false

theorem noPanic_iff {α} (r : Outcome α) : NoPanic r ↔ r.isPanic = false := by
  cases r <;> simp [NoPanic, isPanic]

theorem NoPanic.bind {α β} {r : Outcome α} {f : α → Outcome β}
    (h : NoPanic r) (hf : ∀ a, r = .ok a → NoPanic (f a)) : NoPanic (r >>= f) := by
  cases r with
  | ok a => simpa using hf a rfl
  | err e => intro s; simp
  | panic s => exact absurd rfl (h s)

@[simp] theorem noPanic_ok {α} (a : α) : NoPanic (Outcome.ok a) := by intro s; simp
@[simp] theorem noPanic_err {α} (e : String) : NoPanic (Outcome.err e : Outcome α) := by intro s; simp

def map {α β} (f : α → β) : Outcome α → Outcome β
  | .ok a => .ok (f a)
  | .err e => .err e
  | .panic s => .panic s

/-- Rust `Option<T>::read` / `is_err()`: an error is swallowed, a panic is not. -/
def toOption {α} : Outcome α → Outcome (Option α)
  | .ok a => .ok (some a)
  | .err _ => .ok none
  | .panic s => .panic s

end Outcome

/-- checked unsigned subtraction: Rust dev profile panics on underflow -/
def checkedSub (site : String) (a b : Nat) : Outcome Nat :=
  if b ≤ a then .ok (a - b) else .panic site

/-- checked addition in a `bits`-wide unsigned type -/
def checkedAdd (site : String) (bits : Nat) (a b : Nat) : Outcome Nat :=
  if a + b < 2 ^ bits then .ok (a + b) else .panic site

def checkedMul (site : String) (bits : Nat) (a b : Nat) : Outcome Nat :=
  if a * b < 2 ^ bits then .ok (a * b) else .panic site

end Rdp
