import RdpModel.Base.Bytes
/-  Byte-level bit facts, proved once (by complete enumeration over a byte with
    `decide +kernel`, or from core `Nat` lemmas). -/
namespace Rdp

theorem and80_iff : ∀ n, n < 256 → ((n &&& 0x80 ≠ 0) ↔ 128 ≤ n) := by decide +kernel
theorem and7f_mod : ∀ n, n < 256 → (n &&& 0x7f = n % 128) := by decide +kernel
theorem and0f_mod : ∀ n, n < 256 → (n &&& 0xf = n % 16) := by decide +kernel
theorem shr4_div : ∀ n, n < 256 → (n >>> 4 = n / 16) := by decide +kernel

theorem shl8_or (a b : Nat) (hb : b < 256) : (a <<< 8) ||| b = a * 256 + b := by
  rw [← Nat.shiftLeft_add_eq_or_of_lt (by simpa using hb), Nat.shiftLeft_eq]

theorem shl8 (a : Nat) : a <<< 8 = a * 256 := by rw [Nat.shiftLeft_eq]

theorem or_8000 (n : Nat) (h : n < 0x8000) : n ||| 0x8000 = n + 0x8000 := by
  have := Nat.two_pow_add_eq_or_of_lt (i := 15) (b := n) (by simpa using h) 1
  simp only [Nat.mul_one] at this
  rw [Nat.or_comm]
  have e : (0x8000 : Nat) = 2 ^ 15 := by decide
  rw [e, ← this]; omega

theorem u8_ofNat_toNat (n : Nat) (h : n < 256) : (UInt8.ofNat n).toNat = n := by
  simp [UInt8.toNat_ofNat']; omega

theorem leNat_single (b : UInt8) : leNat [b] = b.toNat := by simp [leNat]

theorem beNat_pair (hi lo : UInt8) : beNat [hi, lo] = hi.toNat * 256 + lo.toNat := by
  simp [beNat, leNat]; omega

theorem encInt_be2 (v : Nat) : encInt .be 2 v = [UInt8.ofNat (v / 256 % 256), UInt8.ofNat (v % 256)] := by
  simp [encInt, leBytes]

theorem encInt_be4 (v : Nat) : encInt .be 4 v =
    [UInt8.ofNat (v / 256 / 256 / 256 % 256), UInt8.ofNat (v / 256 / 256 % 256),
     UInt8.ofNat (v / 256 % 256), UInt8.ofNat (v % 256)] := by
  simp [encInt, leBytes]

end Rdp
